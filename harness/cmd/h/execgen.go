package main

// Generators for the executor family: schemas, typed data graphs, documents, call histories.

import (
	"fmt"
	"math/rand"
	"sort"
	"strconv"
	"strings"

	"verifharness/sx"
)

type gTy struct {
	kind byte // 'n' named, 'l' list, 'N' non-null
	id   int
	of   *gTy
}

func (t gTy) sexp() sx.S {
	switch t.kind {
	case 'n':
		return sx.L("n", sx.A(t.id))
	case 'l':
		return sx.L("l", t.of.sexp())
	}
	return sx.L("nn", t.of.sexp())
}

func (t gTy) base() int {
	if t.kind == 'n' {
		return t.id
	}
	return t.of.base()
}

type gArg struct {
	name int
	ty   gTy
}

type gField struct {
	name int
	ty   gTy
	args []gArg
}

type gType struct {
	id      int
	kind    string // leaf enum obj iface union
	leaf    string
	vals    []int
	fields  []gField
	ifaces  []int
	members []int
}

type gSchema struct {
	types []*gType
	byID  map[int]*gType
}

type profile struct {
	pFail, pIll, pDir, pAlias, pFrag, pInline, pArgs, pAny, pBadCall, pNullObj float64
	respread                                                                   bool // a fragment may be spread twice in one selection set
	noWrongType                                                                bool // never put a node of another object type where a type is expected
	maxDepth                                                                   int
	defect                                                                     string // C10: inject one defect
	calls                                                                      int    // number of calls in the history (C11)
	oneStrategy                                                                string // "", "R", "A"
	unboundValues                                                              bool   // put values bound to no object type under interface-typed fields (C10: the interface as container)
	fullDepth                                                                  bool   // never lower ggql.MaxResolveDepth (leaked Go values cannot be written as JSON: C07)
}

// genCommon restricts generation to the feature set the three resolver strategies share (C02):
// no abstract types, String/Boolean arguments that are always supplied, variables always given
var genCommon bool
var genNoAbstract bool

func named(id int) gTy { return gTy{kind: 'n', id: id} }

func (s *gSchema) add(t *gType) {
	s.types = append(s.types, t)
	s.byID[t.id] = t
}

func pick(r *rand.Rand, xs []int) int { return xs[r.Intn(len(xs))] }

func chance(r *rand.Rand, p float64) bool { return r.Float64() < p }

func genSchema(r *rand.Rand) *gSchema {
	s := &gSchema{byID: map[int]*gType{}}
	for id, k := range map[int]string{10: "int", 11: "string", 12: "bool", 13: "id", 14: "float"} {
		s.byID[id] = &gType{id: id, kind: "leaf", leaf: k}
	}
	for _, id := range []int{10, 11, 12, 13, 14} {
		s.types = append(s.types, s.byID[id])
	}
	s.add(&gType{id: 30, kind: "enum", vals: []int{1, 2, 3}})
	if chance(r, 0.3) {
		s.add(&gType{id: 31, kind: "leaf", leaf: "custom"})
	}
	nobj := 2 + r.Intn(3)
	objs := []int{}
	for i := 0; i < nobj; i++ {
		objs = append(objs, 20+i)
	}
	var iface, union *gType
	if chance(r, 0.65) && !genNoAbstract {
		iface = &gType{id: 28, kind: "iface"}
	}
	if chance(r, 0.65) && !genNoAbstract {
		union = &gType{id: 29, kind: "union"}
		n := 1 + r.Intn(len(objs))
		perm := r.Perm(len(objs))
		for _, i := range perm[:n] {
			union.members = append(union.members, objs[i])
		}
		sort.Ints(union.members)
	}
	composite := append([]int{}, objs...)
	leafs := []int{10, 11, 12, 13, 30, 10, 11, 14}
	if s.byID[31] != nil {
		leafs = append(leafs, 31)
	}
	genTy := func() gTy {
		var t gTy
		switch x := r.Intn(10); {
		case x < 5:
			t = named(pick(r, leafs))
		case x < 8:
			t = named(pick(r, composite))
		case x < 9 && iface != nil:
			t = named(28)
		case union != nil:
			t = named(29)
		default:
			t = named(pick(r, composite))
		}
		if chance(r, 0.12) {
			in := t
			t = gTy{kind: 'N', of: &in}
		}
		if chance(r, 0.3) {
			in := t
			t = gTy{kind: 'l', of: &in}
			if chance(r, 0.25) {
				if chance(r, 0.4) {
					inn := t // a list of non-null lists: [[T]!]
					t = gTy{kind: 'N', of: &inn}
				}
				in2 := t
				t = gTy{kind: 'l', of: &in2}
			}
		}
		if chance(r, 0.12) && t.kind != 'N' {
			in := t
			t = gTy{kind: 'N', of: &in}
		}
		return t
	}
	argsByName := map[int][]gArg{}
	var genArgs0 func() []gArg
	genArgsFor := func(name int) []gArg {
		if a, ok := argsByName[name]; ok && chance(r, 0.75) {
			return a
		}
		a := genArgs0()
		argsByName[name] = a
		return a
	}
	genArgs0 = func() []gArg {
		if !chance(r, 0.3) {
			return nil
		}
		var out []gArg
		n := 1 + r.Intn(2)
		for _, a := range r.Perm(3)[:n] {
			t := named(pick(r, []int{10, 11, 12, 30}))
			if genCommon {
				t = named(pick(r, []int{10, 11, 12, 30}))
			}
			if !genCommon && chance(r, 0.3) {
				// list-typed arguments: [T], [T!], [[T]], each possibly non-null
				if chance(r, 0.3) {
					in := t
					t = gTy{kind: 'N', of: &in}
				}
				in := t
				t = gTy{kind: 'l', of: &in}
				if chance(r, 0.2) {
					in2 := t
					t = gTy{kind: 'l', of: &in2}
				}
			}
			if chance(r, 0.3) {
				in := t
				t = gTy{kind: 'N', of: &in}
			}
			out = append(out, gArg{name: a + 1, ty: t})
		}
		sort.Slice(out, func(i, j int) bool { return out[i].name < out[j].name })
		return out
	}
	if iface != nil {
		n := 1 + r.Intn(2)
		for _, f := range r.Perm(4)[:n] {
			iface.fields = append(iface.fields, gField{name: f + 1, ty: genTy(), args: genArgsFor(f + 1)})
		}
	}
	for _, id := range objs {
		t := &gType{id: id, kind: "obj"}
		used := map[int]bool{}
		if iface != nil && (chance(r, 0.6) || id == objs[0]) {
			t.ifaces = []int{28}
			for _, f := range iface.fields {
				t.fields = append(t.fields, f)
				used[f.name] = true
			}
		}
		n := 2 + r.Intn(4)
		for _, f := range r.Perm(8) {
			if len(t.fields) >= n {
				break
			}
			if !used[f+1] {
				t.fields = append(t.fields, gField{name: f + 1, ty: genTy(), args: genArgsFor(f + 1)})
			}
		}
		s.add(t)
	}
	if iface != nil {
		s.add(iface)
	}
	if union != nil {
		s.add(union)
	}
	q := &gType{id: 1, kind: "obj"}
	n := 3 + r.Intn(3)
	for _, f := range r.Perm(8)[:n] {
		q.fields = append(q.fields, gField{name: f + 1, ty: genTy(), args: genArgsFor(f + 1)})
	}
	// make sure something composite is reachable
	in := named(objs[0])
	q.fields[0].ty = gTy{kind: 'l', of: &in}
	q.fields[1].ty = named(pick(r, composite))
	s.add(q)
	if chance(r, 0.3) {
		m := &gType{id: 2, kind: "obj"}
		for _, f := range r.Perm(8)[:2] {
			m.fields = append(m.fields, gField{name: f + 1, ty: genTy(), args: genArgsFor(f + 1)})
		}
		s.add(m)
	}
	return s
}

func (s *gSchema) sexp() []sx.S {
	out := []sx.S{"schema"}
	for _, t := range s.types {
		switch t.kind {
		case "leaf":
			out = append(out, sx.L("leaf", sx.A(t.id), t.leaf))
		case "enum":
			out = append(out, sx.L("enum", sx.A(t.id), sx.Ints(t.vals)))
		case "obj", "iface":
			fs := []sx.S{"fields"}
			for _, f := range t.fields {
				as := []sx.S{"args"}
				for _, a := range f.args {
					as = append(as, sx.L("a", sx.A(a.name), a.ty.sexp()))
				}
				fs = append(fs, sx.L("f", sx.A(f.name), f.ty.sexp(), as))
			}
			if t.kind == "obj" {
				out = append(out, sx.L("obj", sx.A(t.id), fs, append([]sx.S{"ifaces"}, sx.Ints(t.ifaces)...)))
			} else {
				out = append(out, sx.L("iface", sx.A(t.id), fs))
			}
		case "union":
			out = append(out, sx.L("union", sx.A(t.id), append([]sx.S{"members"}, sx.Ints(t.members)...)))
		}
	}
	return out
}

func (s *gSchema) objects() []int {
	var out []int
	for _, t := range s.types {
		if t.kind == "obj" {
			out = append(out, t.id)
		}
	}
	return out
}

// possible concrete types of a composite type
func (s *gSchema) possible(id int) []int {
	t := s.byID[id]
	switch t.kind {
	case "obj":
		return []int{id}
	case "union":
		return t.members
	case "iface":
		var out []int
		for _, o := range s.objects() {
			for _, i := range s.byID[o].ifaces {
				if i == id {
					out = append(out, o)
				}
			}
		}
		return out
	}
	return nil
}

type gGraph struct {
	nodes   [][]sx.S // sexp of each node
	byType  map[int][]int
	strat   map[int]bool
	any     bool
	nextID  int
	hasFail bool
	hasIll  bool
}

func genGraph(r *rand.Rand, s *gSchema, p *profile) *gGraph {
	g := &gGraph{byType: map[int][]int{}, strat: map[int]bool{}, nextID: 1}
	g.any = chance(r, p.pAny)
	if p.oneStrategy == "A" {
		g.any = true
	}
	if p.oneStrategy == "R" {
		g.any = false
	}
	for _, o := range s.objects() {
		g.strat[o] = !g.any || chance(r, 0.5)
		if p.oneStrategy == "A" {
			g.strat[o] = false
		}
		n := 1 + r.Intn(3)
		if o == 1 || o == 2 {
			n = 1
		}
		for i := 0; i < n; i++ {
			g.byType[o] = append(g.byType[o], g.nextID)
			g.nextID++
		}
	}
	// values whose Go type is bound to no object type (id 900): under an interface-typed field they are
	// evaluated in the interface itself - its fields, its arguments, __typename = the interface's name
	if s.byID[28] != nil && !genCommon && !p.noWrongType && chance(r, 0.25) || s.byID[28] != nil && p.unboundValues && chance(r, 0.5) {
		g.strat[900] = !g.any || chance(r, 0.5)
		for i, n := 0, 1+r.Intn(2); i < n; i++ {
			g.byType[900] = append(g.byType[900], g.nextID)
			g.nextID++
		}
	}
	var valueFor func(t gTy, depth int) sx.S
	valueFor = func(t gTy, depth int) sx.S {
		switch t.kind {
		case 'N':
			return valueFor(*t.of, depth)
		case 'l':
			if chance(r, 0.06) {
				return "nil"
			}
			if chance(r, p.pIll*0.5) {
				g.hasIll = true
				return sx.L("other", "7")
			}
			n := r.Intn(4)
			if bt := s.byID[t.of.base()]; t.of.kind == 'n' && (bt.kind == "leaf" || bt.kind == "enum") && chance(r, 0.15) {
				// a typed Go slice, of the right or of another element kind
				out := []sx.S{[]string{"tstrs", "tints", "tbools"}[r.Intn(3)]}
				for i := 0; i < n; i++ {
					switch out[0].(string) {
					case "tstrs":
						out = append(out, sx.A(r.Intn(9)))
					case "tints":
						out = append(out, sx.A(r.Intn(100)))
					default:
						out = append(out, sx.A(r.Intn(2)))
					}
				}
				g.hasIll = true
				return out
			}
			kind := "list"
			if x := r.Intn(10); x < 3 {
				kind = "lres"
			} else if x < 5 && g.any {
				kind = "alist"
			} else if bt := s.byID[t.of.base()]; x < 7 && t.of.kind == 'n' && bt.kind != "leaf" && bt.kind != "enum" {
				// a typed Go slice of objects ([]*T when all members share a Go type): walked by reflection,
				// or through the AnyResolver when one is installed
				kind = "tlist"
			}
			out := []sx.S{kind}
			for i := 0; i < n; i++ {
				if kind == "alist" && chance(r, p.pFail) {
					g.hasFail = true
					out = append(out, "fail")
					continue
				}
				if chance(r, 0.15) {
					out = append(out, "nil")
				} else {
					out = append(out, valueFor(*t.of, depth+1))
				}
			}
			return out
		}
		tt := s.byID[t.id]
		if chance(r, 0.08) {
			return "nil"
		}
		switch tt.kind {
		case "leaf", "enum":
			if chance(r, p.pIll) {
				g.hasIll = true
				switch r.Intn(5) {
				case 0:
					return sx.L("str", sx.A(r.Intn(9)))
				case 1:
					return sx.L("bool", "1")
				case 2:
					return sx.L("other", "3")
				case 3:
					return sx.L("list", sx.L("int", "1"))
				default:
					return sx.L("int", sx.A(r.Intn(100)))
				}
			}
			switch {
			case tt.kind == "enum":
				if chance(r, 0.3) {
					return sx.L("str", sx.A(r.Intn(9)))
				}
				return sx.L("sym", sx.A(pick(r, tt.vals)))
			case tt.leaf == "int":
				if chance(r, 0.05) {
					return sx.L("int", sx.A(4294967296+r.Intn(1000)))
				}
				return sx.L("int", sx.A(r.Intn(2000)-1000))
			case tt.leaf == "string":
				if chance(r, 0.15) {
					return sx.L("int", sx.A(r.Intn(100)))
				}
				return sx.L("str", sx.A(r.Intn(9)))
			case tt.leaf == "bool":
				return sx.L("bool", sx.A(r.Intn(2)))
			case tt.leaf == "id":
				if chance(r, 0.3) {
					return sx.L("int", sx.A(r.Intn(100)))
				}
				return sx.L("str", sx.A(r.Intn(9)))
			case tt.leaf == "float":
				if chance(r, 0.15) {
					// whole numbers whose shortest text is in exponent form (1e+06 ... 1e+07), exact in 32 bits
					return sx.L("int", sx.A((1+r.Intn(10))*1000000))
				}
				return sx.L("int", sx.A(r.Intn(100)))
			default:
				return sx.L("str", sx.A(r.Intn(9)))
			}
		default:
			poss := s.possible(t.id)
			if len(poss) == 0 {
				return "nil"
			}
			if t.id == 28 && len(g.byType[900]) > 0 && chance(r, 0.4) {
				return sx.L("node", sx.A(pick(r, g.byType[900])))
			}
			ct := pick(r, poss)
			if !p.noWrongType && chance(r, 0.03) {
				ct = pick(r, s.objects()) // possibly not a member / implementer
			}
			if chance(r, p.pNullObj) {
				return "nil"
			}
			return sx.L("node", sx.A(pick(r, g.byType[ct])))
		}
	}
	objs := s.objects()
	if len(g.byType[900]) > 0 {
		objs = append(objs, 900)
	}
	for _, o := range objs {
		for _, id := range g.byType[o] {
			n := []sx.S{"node", sx.A(id), sx.A(o)}
			var fields []gField
			if o == 900 {
				fields = s.byID[28].fields // an unbound value answers the fields of the interface
			} else {
				fields = s.byID[o].fields
			}
			for _, f := range fields {
				var b sx.S
				echo := -1
				for _, a := range f.args {
					if a.ty.base() == f.ty.base() && f.ty.kind != 'l' && chance(r, 0.6) {
						echo = a.name
					}
				}
				switch {
				case echo >= 0:
					b = sx.L("echo", sx.A(echo))
				case chance(r, p.pFail):
					g.hasFail = true
					v := sx.S("nil")
					if chance(r, 0.3) {
						v = valueFor(f.ty, 0)
					}
					b = sx.L("fail", sx.A(r.Intn(4)), v)
				default:
					b = sx.L("const", valueFor(f.ty, 0))
				}
				n = append(n, sx.L("field", sx.A(f.name), b))
			}
			g.nodes = append(g.nodes, n)
		}
	}
	return g
}

type gVar struct {
	name int
	ty   gTy
	dflt sx.S
}

type docGen struct {
	r             *rand.Rand
	s             *gSchema
	p             *profile
	nextID        int
	vars          []gVar // of the operation being generated
	frags         []sx.S
	nfrag         int
	feats         map[string]bool
	defectInfo    sx.S // the defect that has been injected (C10)
	metaContainer int  // the container type a meta-field was placed in
}

func (d *docGen) id() sx.S {
	d.nextID++
	return sx.A(d.nextID)
}

func sameTy(a, b gTy) bool {
	if a.kind != b.kind {
		return false
	}
	if a.kind == 'n' {
		return a.id == b.id
	}
	return sameTy(*a.of, *b.of)
}

func (d *docGen) literal(t gTy) sx.S { return d.lit(t, true) }

// lit writes a value of type t; withVars lets list elements be variables (not inside variable defaults)
func (d *docGen) lit(t gTy, withVars bool) sx.S {
	r := d.r
	switch t.kind {
	case 'N':
		return d.lit(*t.of, withVars)
	case 'l':
		d.feats["list-literal"] = true
		out := []sx.S{"l"}
		for i, n := 0, r.Intn(4); i < n; i++ {
			switch {
			case withVars && chance(r, 0.3):
				d.feats["variable-in-list-literal"] = true
				out = append(out, d.useVar(*t.of))
			case t.of.kind != 'N' && chance(r, 0.1):
				out = append(out, "null")
			default:
				out = append(out, d.lit(*t.of, withVars))
			}
		}
		return out
	}
	return scalarValue(r, d.s, t)
}

func scalarValue(r *rand.Rand, s *gSchema, t gTy) sx.S {
	tt := s.byID[t.base()]
	switch {
	case tt.kind == "enum":
		return sx.L("e", sx.A(pick(r, tt.vals)))
	case tt.leaf == "int":
		return sx.L("i", sx.A(r.Intn(200)-100))
	case tt.leaf == "string", tt.leaf == "id":
		return sx.L("s", sx.A(r.Intn(9)))
	case tt.leaf == "bool":
		return sx.L("b", sx.A(r.Intn(2)))
	}
	return "null"
}

// wrongKind writes a literal whose kind the declared type cannot take: a list or an object for a
// named type, an enum value for anything that is not an enum, a scalar for a list type
func (d *docGen) wrongKind(t gTy) sx.S {
	r := d.r
	inner := t
	if inner.kind == 'N' {
		inner = *inner.of
	}
	isEnum := inner.kind == 'n' && d.s.byID[inner.id].kind == "enum"
	switch x := r.Intn(4); {
	case x == 0 && !isEnum:
		return sx.L("e", sx.A(1+r.Intn(3)))
	case x == 1:
		return sx.L("o", sx.L(sx.A(1), sx.L("i", sx.A(r.Intn(5)))))
	case inner.kind == 'l':
		return scalarValue(r, d.s, t)
	}
	return sx.L("l", scalarValue(r, d.s, t))
}

func (d *docGen) useVar(t gTy) sx.S {
	r := d.r
	d.feats["variable"] = true
	for _, v := range d.vars {
		if sameTy(v.ty, t) && chance(r, 0.5) {
			return sx.L("v", sx.A(v.name))
		}
	}
	v := gVar{name: len(d.vars) + 1, ty: t, dflt: "-"}
	if chance(r, 0.4) {
		v.dflt = d.lit(t, false)
		d.feats["var-default"] = true
	}
	d.vars = append(d.vars, v)
	return sx.L("v", sx.A(v.name))
}

func (d *docGen) dirs() []sx.S {
	r := d.r
	out := []sx.S{"dirs"}
	if !chance(r, d.p.pDir) {
		return out
	}
	d.feats["directive"] = true
	n := 1
	if chance(r, 0.3) {
		n = 2
	}
	for i := 0; i < n; i++ {
		nm := "skip"
		if r.Intn(2) == 0 {
			nm = "include"
		}
		var v sx.S
		if chance(r, 0.5) {
			v = sx.L("b", sx.A(r.Intn(2)))
		} else {
			v = d.useVar(named(12))
		}
		out = append(out, sx.L("d", nm, v))
	}
	if n == 2 {
		d.feats["two-directives"] = true
	}
	if chance(r, 0.25) {
		// the schema's own directive, in front of, between or behind the others
		i := 1 + r.Intn(len(out))
		out = append(out[:i], append([]sx.S{sx.L("d", "8", "-")}, out[i:]...)...)
		d.feats["schema-directive"] = true
	}
	return out
}

func (d *docGen) sels(container int, depth int) []sx.S {
	r := d.r
	t := d.s.byID[container]
	var out []sx.S
	n := 1 + r.Intn(4)
	used := map[int]bool{}
	allowDup := chance(r, 0.12)
	freshAlias := func() (sx.S, bool) {
		for try := 0; try < 8; try++ {
			a := 1 + r.Intn(12)
			if allowDup || !used[a] {
				used[a] = true
				return sx.A(a), true
			}
		}
		return "-", false
	}
	for i := 0; i < n; i++ {
		x := r.Float64()
		switch {
		case x < 0.12:
			alias := sx.S("-")
			if chance(r, d.p.pAlias) || used[0] {
				if a, ok := freshAlias(); ok {
					alias = a
					d.feats["alias"] = true
				} else if !allowDup {
					continue
				}
			} else {
				used[0] = true
			}
			out = append(out, sx.L("f", d.id(), alias, "0", sx.L("args"), d.dirs()))
			d.feats["typename"] = true
		case x < 0.12+d.p.pInline && depth < d.p.maxDepth:
			cond := sx.S("-")
			ct := container
			if chance(r, 0.8) {
				poss := d.s.possible(container)
				choices := append([]int{container}, poss...)
				if t.kind == "obj" {
					choices = append(choices, t.ifaces...)
					if u := d.s.byID[29]; u != nil {
						for _, m := range u.members {
							if m == container {
								choices = append(choices, 29)
							}
						}
					}
				}
				if chance(r, 0.08) {
					choices = d.s.objects()
				}
				ct = pick(r, choices)
				cond = sx.A(ct)
				if ct != container {
					d.feats["fragment-on-other-type"] = true
				}
			}
			d.feats["inline"] = true
			body := d.sels(ct, depth+1)
			out = append(out, append(sx.L("in", d.id(), cond, d.dirs()), body...))
		case x < 0.12+d.p.pInline+d.p.pFrag && depth < d.p.maxDepth:
			d.feats["fragment"] = true
			ct := container
			if poss := d.s.possible(container); len(poss) > 0 && chance(r, 0.4) {
				ct = pick(r, poss)
			}
			if d.p.defect == "" && chance(r, 0.3) {
				// a fragment that is already complete (defined for another selection set, possibly inside
				// another fragment) is spread here again
				var same []sx.S
				for _, fr := range d.frags {
					if fl := sx.List(fr); len(fl) > 2 && fl[2].(string) == sx.A(ct) {
						same = append(same, fl[1])
					}
				}
				if len(same) > 0 {
					out = append(out, sx.L("fr", d.id(), same[r.Intn(len(same))], d.dirs()))
					d.feats["fragment-shared"] = true
					continue
				}
			}
			d.nfrag++
			name := d.nfrag
			id := d.id()
			dirs := d.dirs()
			body := d.sels(ct, depth+1)
			d.frags = append(d.frags, append(sx.L("frag", sx.A(name), sx.A(ct)), body...))
			out = append(out, sx.L("fr", id, sx.A(name), dirs))
			if d.p.respread && chance(r, 0.35) {
				// the same fragment spread again in this selection set, under directives of its own
				out = append(out, sx.L("fr", d.id(), sx.A(name), d.dirs()))
				d.feats["fragment-spread-twice"] = true
			}
		default:
			ft := t
			if t.kind == "union" || t.kind == "iface" {
				// ggql evaluates the selection set against each object's concrete type, so a field of one of the
				// possible types can be selected directly (defined for some elements, undefined for others)
				if poss := d.s.possible(container); len(poss) > 0 && chance(r, 0.35) {
					ft = d.s.byID[pick(r, poss)]
					d.feats["field-of-a-possible-type"] = true
				}
			}
			if ft.kind == "union" || len(ft.fields) == 0 {
				if used[0] && !allowDup {
					continue
				}
				used[0] = true
				out = append(out, sx.L("f", d.id(), "-", "0", sx.L("args"), sx.L("dirs")))
				continue
			}
			f := ft.fields[r.Intn(len(ft.fields))]
			alias := sx.S("-")
			if chance(r, d.p.pAlias) || used[f.name] {
				if a, ok := freshAlias(); ok {
					alias = a
					d.feats["alias"] = true
				} else if !allowDup {
					continue
				}
			} else {
				used[f.name] = true
			}
			args := []sx.S{"args"}
			for _, a := range f.args {
				req := a.ty.kind == 'N'
				if (req && (genCommon || chance(r, 0.97))) || (!req && chance(r, d.p.pArgs)) {
					var v sx.S
					switch {
					case chance(r, 0.35):
						v = d.useVar(a.ty)
					case !genCommon && d.p.defect == "" && chance(r, 0.04):
						v = d.wrongKind(a.ty)
						d.feats["wrong-kind-literal"] = true
					default:
						v = d.literal(a.ty)
					}
					args = append(args, sx.L("a", sx.A(a.name), v))
					d.feats["argument"] = true
				}
			}
			if len(args) > 2 && chance(r, 0.5) {
				args[1], args[2] = args[2], args[1]
			}
			fid := d.id()
			fname := f.name
			fdirs := d.dirs()
			if d.p.defect != "" && d.defectInfo == nil && chance(r, 0.35) {
				switch d.p.defect {
				case "unknown-field":
					fname = 9
					d.defectInfo = sx.L("defect", "unknown-field", fid, "9")
				case "undeclared-arg":
					args = append(args, sx.L("a", "9", sx.L("i", "1")))
					d.defectInfo = sx.L("defect", "undeclared-arg", fid, "9")
				case "missing-required":
					for ai, a := range f.args {
						if a.ty.kind == 'N' {
							// drop it if supplied
							na := []sx.S{"args"}
							for _, x := range args[1:] {
								if sx.List(x)[1].(string) != strconv.Itoa(a.name) {
									na = append(na, x)
								}
							}
							args = na
							d.defectInfo = sx.L("defect", "missing-required", fid, sx.A(a.name))
							_ = ai
							break
						}
					}
				case "meta-field":
					// __schema / __type selected in a container that is not the query root
					if container != 1 {
						fname = 98 + r.Intn(2)
						args = sx.L("args")
						d.defectInfo = sx.L("defect", "unknown-field", fid, sx.A(fname))
						d.metaContainer = container
					}
				case "unknown-directive":
					fdirs = append(fdirs, sx.L("d", "7", "-"))
					d.defectInfo = sx.L("defect", "unknown-directive", fid, "7")
				case "misplaced-directive":
					fdirs = append(fdirs, sx.L("d", "0", "-"))
					d.defectInfo = sx.L("defect", "misplaced-directive", fid, "0")
				case "undefined-inline-cond":
					// a type no one defined (99), a directive's name (98 = skip), a list of an undefined type (97)
					iid := d.id()
					cond := []string{"99", "98", "97"}[r.Intn(3)]
					out = append(out, sx.L("in", iid, cond, sx.L("dirs"), sx.L("f", d.id(), "-", "0", sx.L("args"), sx.L("dirs"))))
					d.defectInfo = sx.L("defect", "undefined-inline-cond", iid, cond)
				case "undeclared-directive-arg":
					// @skip / @include with a second argument they do not declare, given as a variable
					nm := []string{"skip", "include"}[r.Intn(2)]
					fdirs = append(fdirs, sx.L("d", nm, sx.L("undecl", sx.L("b", sx.A(r.Intn(2))), d.useVar(named(12)))))
					d.defectInfo = sx.L("defect", "misplaced-directive", fid, "0")
				case "undeclared-variable":
					// a required argument given as a variable the operation does not declare
					for _, a := range f.args {
						if a.ty.kind == 'N' {
							na := []sx.S{"args"}
							for _, x := range args[1:] {
								if sx.List(x)[1].(string) != strconv.Itoa(a.name) {
									na = append(na, x)
								}
							}
							args = append(na, sx.L("a", sx.A(a.name), sx.L("v", "77")))
							d.defectInfo = sx.L("defect", "missing-required", fid, sx.A(a.name))
							break
						}
					}
				case "typename-arg":
					// __typename declares no arguments
					tid := d.id()
					out = append(out, sx.L("f", tid, "-", "0", sx.L("args", sx.L("a", "9", sx.L("i", "1"))), sx.L("dirs")))
					d.defectInfo = sx.L("defect", "undeclared-arg", tid, "9")
				case "directive-on-fragment-definition":
					// the definition comes after the spread that refers to it (fragments are printed last)
					d.nfrag++
					frid := d.id()
					dir := sx.L("d", "7", "-")
					if d.r.Intn(2) == 0 {
						dir = sx.L("d", "skip", sx.L("b", "1"))
					}
					d.frags = append(d.frags, sx.L("frag", sx.A(d.nfrag), sx.A(container), sx.L("fdirs", dir), sx.L("f", d.id(), "-", "0", sx.L("args"), sx.L("dirs"))))
					out = append(out, sx.L("fr", frid, sx.A(d.nfrag), sx.L("dirs")))
					d.defectInfo = sx.L("defect", "directive-on-fragment-definition", frid, "7")
				case "undefined-fragment-cond":
					d.nfrag++
					frid := d.id()
					d.frags = append(d.frags, sx.L("frag", sx.A(d.nfrag), "99", sx.L("f", d.id(), "-", "0", sx.L("args"), sx.L("dirs"))))
					out = append(out, sx.L("fr", frid, sx.A(d.nfrag), sx.L("dirs")))
					d.defectInfo = sx.L("defect", "undefined-fragment-cond", frid, "99")
				}
			}
			fs := sx.L("f", fid, alias, sx.A(fname), args, fdirs)
			bt := d.s.byID[f.ty.base()]
			if fname >= 98 {
				// no selection set: the request is refused where the field stands
			} else if bt.kind == "obj" || bt.kind == "iface" || bt.kind == "union" {
				if depth >= d.p.maxDepth {
					fs = append(fs, sx.L("f", d.id(), "-", "0", sx.L("args"), sx.L("dirs")))
				} else {
					fs = append(fs, d.sels(bt.id, depth+1)...)
				}
				if bt.kind != "obj" {
					d.feats["abstract-field"] = true
				}
				if depth+1 >= 3 {
					d.feats["depth3"] = true
				}
			}
			if f.ty.kind == 'l' || (f.ty.kind == 'N' && f.ty.of.kind == 'l') {
				d.feats["list"] = true
			}
			out = append(out, fs)
		}
	}
	if len(out) == 0 {
		out = append(out, sx.L("f", d.id(), "-", "0", sx.L("args"), sx.L("dirs")))
	}
	return out
}

// dupKeys reports whether some selection set contains two selections with one response key,
// looking through inline fragments and spreads regardless of their conditions.
func dupKeys(sels []sx.S, frags map[string][]sx.S) bool {
	var keys func(sels []sx.S, seen map[string]bool, depth int) bool
	keys = func(sels []sx.S, seen map[string]bool, depth int) bool {
		dup := false
		for _, s := range sels {
			l := sx.List(s)
			switch sx.Head(s) {
			case "f":
				k := l[3].(string)
				if a := l[2].(string); a != "-" {
					k = a
				}
				if seen[k] {
					dup = true
				}
				seen[k] = true
				if len(l) > 6 && dupKeys(l[6:], frags) {
					dup = true
				}
			case "in":
				if keys(l[4:], seen, depth) {
					dup = true
				}
			case "fr":
				if depth < 8 && keys(frags[l[2].(string)], seen, depth+1) {
					dup = true
				}
			}
		}
		return dup
	}
	return keys(sels, map[string]bool{}, 0)
}

func varValue(r *rand.Rand, s *gSchema, t gTy) sx.S {
	switch t.kind {
	case 'N':
		return varValue(r, s, *t.of)
	case 'l':
		out := []sx.S{"l"}
		for i, n := 0, r.Intn(4); i < n; i++ {
			if t.of.kind != 'N' && chance(r, 0.1) {
				out = append(out, "null")
			} else {
				out = append(out, varValue(r, s, *t.of))
			}
		}
		return out
	}
	return scalarValue(r, s, t)
}

// wrongVarValue: a value of another kind than the variable's type (only combinations every
// implementation of the scalars refuses: a non-numeric string for Int, a value that is not a member
// for an enum, a scalar for a list)
func wrongVarValue(r *rand.Rand, s *gSchema, t gTy) sx.S {
	in := t
	if in.kind == 'N' {
		in = *in.of
	}
	if in.kind == 'l' {
		return sx.L("i", sx.A(5))
	}
	tt := s.byID[in.id]
	switch {
	case tt.kind == "enum":
		return sx.L("e", sx.A(9))
	case tt.leaf == "int":
		return sx.L("s", sx.A(r.Intn(9)))
	}
	return nil
}

func genExecCase(r *rand.Rand, p *profile, id string) Case {
	s := genSchema(r)
	g := genGraph(r, s, p)
	d := &docGen{r: r, s: s, p: p, feats: map[string]bool{}}
	nops := 1
	if chance(r, 0.3) {
		nops = 2 + r.Intn(2)
		d.feats["multi-op"] = true
	}
	ops := []sx.S{"ops"}
	type opInfo struct {
		name sx.S
		vars []gVar
	}
	var infos []opInfo
	for i := 0; i < nops; i++ {
		d.vars = nil
		kind := "query"
		rootT := 1
		if s.byID[2] != nil && chance(r, 0.3) {
			kind = "mutation"
			rootT = 2
		}
		name := sx.S(sx.A(i + 1))
		if nops == 1 && chance(r, 0.6) {
			name = "-"
		}
		body := d.sels(rootT, 1)
		vs := []sx.S{"vars"}
		for _, v := range d.vars {
			vs = append(vs, sx.L("v", sx.A(v.name), v.ty.sexp(), v.dflt))
		}
		ops = append(ops, append(sx.L("op", kind, name, vs), body...))
		infos = append(infos, opInfo{name: name, vars: d.vars})
	}
	frags := append([]sx.S{"frags"}, d.frags...)
	fragMap := map[string][]sx.S{}
	for _, f := range d.frags {
		fl := sx.List(f)
		fragMap[fl[1].(string)] = fl[3:]
	}
	for _, o := range ops[1:] {
		if dupKeys(sx.List(o)[4:], fragMap) {
			d.feats["dupkey"] = true
		}
	}
	for _, f := range d.frags {
		if dupKeys(sx.List(f)[3:], fragMap) {
			d.feats["dupkey"] = true
		}
	}
	ncalls := 1
	if p.calls > 1 {
		ncalls = 2 + r.Intn(p.calls-1)
	}
	calls := []sx.S{"calls"}
	for c := 0; c < ncalls; c++ {
		oi := infos[r.Intn(len(infos))]
		name := oi.name
		if chance(r, p.pBadCall) {
			if chance(r, 0.5) {
				name = "-"
			} else {
				name = "9"
			}
			d.feats["bad-op-name"] = true
		}
		vs := []sx.S{"vars"}
		for _, v := range oi.vars {
			if !genCommon && p.defect == "" && chance(r, 0.04) {
				// a value the declared type of the variable cannot take: the call fails at the variable
				if w := wrongVarValue(r, s, v.ty); w != nil {
					vs = append(vs, sx.L(sx.A(v.name), w))
					d.feats["variable-value-not-coercible"] = true
					continue
				}
			}
			if chance(r, 0.6) {
				vs = append(vs, sx.L(sx.A(v.name), varValue(r, s, v.ty)))
			} else if v.dflt == "-" {
				d.feats["var-unset"] = true
			}
		}
		calls = append(calls, sx.L("call", name, vs))
	}
	strat := []sx.S{"strat"}
	sobjs := s.objects()
	if len(g.byType[900]) > 0 {
		sobjs = append(sobjs, 900)
		d.feats["value-bound-to-no-object-type"] = true
	}
	for _, o := range sobjs {
		st := "A"
		if g.strat[o] {
			st = "R"
		}
		strat = append(strat, sx.L(sx.A(o), st))
	}
	graph := []sx.S{"graph"}
	for _, n := range g.nodes {
		graph = append(graph, n)
	}
	mroot := -1
	if s.byID[2] != nil {
		mroot = g.byType[2][0]
	}
	anyS := "0"
	if g.any {
		anyS = "1"
		d.feats["any-resolver"] = true
	}
	input := sx.L("exec", s.sexp(), strat, graph, sx.L("root", sx.A(g.byType[1][0]), sx.A(mroot)),
		sx.L("any", anyS), sx.L("doc", ops, frags), calls)
	if !genCommon && !p.fullDepth && p.defect == "" && chance(r, 0.12) {
		// a small ggql.MaxResolveDepth: the budget binds inside the document
		input = append(input, sx.L("maxdepth", sx.A(2+r.Intn(7))))
		d.feats["small-depth-budget"] = true
	}
	if mc := s.byID[d.metaContainer]; mc != nil && mc.kind == "obj" && d.metaContainer > 2 && chance(r, 0.7) {
		// that container carries the name Query; the query root is named by a schema block
		input = append(input, sx.L("queryname", sx.A(d.metaContainer)))
		d.feats["object-named-Query-below-the-root"] = true
	}
	if d.defectInfo != nil {
		input = append(input, d.defectInfo)
		d.feats["defect:"+sx.List(d.defectInfo)[1].(string)] = true
	} else if p.defect != "" {
		d.feats["defect-not-placed"] = true
	}
	if g.hasFail {
		d.feats["resolver-failure"] = true
	}
	if g.hasIll {
		d.feats["ill-typed-leaf"] = true
	}
	tags := []string{}
	for k := range d.feats {
		tags = append(tags, k)
	}
	sort.Strings(tags)
	nf := 0
	for _, k := range []string{"alias", "fragment", "inline", "list", "multi-op", "variable", "directive", "abstract-field", "resolver-failure", "argument"} {
		if d.feats[k] {
			nf++
		}
	}
	if nf >= 2 {
		tags = append(tags, "nontrivial")
	}
	text, _ := docText(sx.List(input)[6].([]sx.S)[1:])
	return Case{ID: id, Input: input, Tags: tags, Human: text}
}

func execValid(input sx.S) bool {
	if sx.Head(input) != "exec" {
		return false
	}
	secs := sx.List(input)[1:]
	for _, name := range []string{"schema", "strat", "graph", "root", "any", "doc", "calls"} {
		found := false
		for _, s := range secs {
			if sx.Head(s) == name {
				found = true
			}
		}
		if !found {
			return false
		}
	}
	// shape checks by running the renderers (they panic on malformed input; validInput recovers)
	_ = schemaText(section(secs, "schema"))
	_, _ = docText(section(secs, "doc"))
	if len(section(secs, "root")) != 2 || len(section(secs, "calls")) == 0 {
		return false
	}
	for _, sec := range section(secs, "doc") {
		if sx.Head(sec) == "ops" && len(sx.List(sec)) < 2 {
			return false
		}
	}
	for _, c := range section(secs, "calls") {
		if sx.Head(c) != "call" || len(sx.List(c)) != 3 {
			return false
		}
	}
	return true
}

var profC01 = profile{pFail: 0.03, pIll: 0.01, pDir: 0.2, pAlias: 0.3, pFrag: 0.1, pInline: 0.12, pArgs: 0.8, pAny: 0.4, pBadCall: 0.25, pNullObj: 0.1, maxDepth: 4, calls: 1}

func execGen(prof profile, quick, thorough int) func(r *rand.Rand, tier string) []Case {
	return func(r *rand.Rand, tier string) []Case {
		n := quick
		if tier == "thorough" {
			n = thorough
		}
		var cases []Case
		for i := 0; i < n; i++ {
			p := prof
			if i%25 == 24 {
				cases = append(cases, genArgsAcrossTypes(r, "x"+strconv.Itoa(i), prof.calls))
				continue
			}
			cases = append(cases, genExecCase(r, &p, "g"+strconv.Itoa(i)))
		}
		return cases
	}
}

// genArgsAcrossTypes: one selection evaluated in several object types that declare different
// arguments for the field - members of a union reached through an untyped inline fragment, a
// fragment on the union, or the bare field - over a list that mixes the members in a random order.
// What each element yields depends on its own type only: an error where its type does not declare
// a supplied argument or misses a required one, the resolver's value elsewhere.
func genArgsAcrossTypes(r *rand.Rand, id string, calls int) Case {
	leaves := "(leaf 10 int) (leaf 11 string) (leaf 12 bool) (leaf 13 id) (leaf 14 float)"
	nm := 2 + r.Intn(2) // member types 20..
	argSets := make([][]int, nm)
	reqd := make([]map[int]bool, nm)
	var types, strat, members []string
	for m := 0; m < nm; m++ {
		reqd[m] = map[int]bool{}
		var as []string
		for a := 1; a <= 3; a++ {
			if r.Intn(2) == 0 {
				argSets[m] = append(argSets[m], a)
				t := "(n 10)"
				if r.Intn(4) == 0 {
					t = "(nn (n 10))"
					reqd[m][a] = true
				}
				as = append(as, fmt.Sprintf("(a %d %s)", a, t))
			}
		}
		types = append(types, fmt.Sprintf("(obj %d (fields (f 2 (n 10) (args %s)) (f 3 (n 10) (args))) (ifaces))", 20+m, strings.Join(as, " ")))
		strat = append(strat, fmt.Sprintf("(%d %s)", 20+m, []string{"R", "A"}[r.Intn(2)]))
		members = append(members, strconv.Itoa(20+m))
	}
	types = append(types, "(union 29 (members "+strings.Join(members, " ")+"))", "(obj 1 (fields (f 5 (l (n 29)) (args)) (f 6 (n 29) (args))) (ifaces))")
	strat = append(strat, "(1 R)")
	// nodes 2.. one per member plus repeats, in a random order in the list
	var nodes, elems []string
	nn := nm + r.Intn(3)
	for i := 0; i < nn; i++ {
		m := i % nm
		if i >= nm {
			m = r.Intn(nm)
		}
		nodes = append(nodes, fmt.Sprintf("(node %d %d (field 2 (const (int %d))) (field 3 (const (int %d))))", 2+i, 20+m, 100+i, 200+i))
		elems = append(elems, fmt.Sprintf("(node %d)", 2+i))
	}
	r.Shuffle(len(elems), func(i, j int) { elems[i], elems[j] = elems[j], elems[i] })
	nodes = append(nodes, fmt.Sprintf("(node 1 1 (field 5 (const (list %s))) (field 6 (const %s)))", strings.Join(elems, " "), elems[r.Intn(len(elems))]))
	// the selection: a random subset of the arguments 1..3, literal or variable
	var args, vars, vvals []string
	for a := 1; a <= 3; a++ {
		if r.Intn(2) == 0 {
			if r.Intn(3) == 0 {
				vars = append(vars, fmt.Sprintf("(v %d (n 10) -)", a))
				vvals = append(vvals, fmt.Sprintf("(%d (i %d))", a, r.Intn(50)))
				args = append(args, fmt.Sprintf("(a %d (v %d))", a, a))
			} else {
				args = append(args, fmt.Sprintf("(a %d (i %d))", a, r.Intn(50)))
			}
		}
	}
	r.Shuffle(len(args), func(i, j int) { args[i], args[j] = args[j], args[i] })
	alias := "-"
	if r.Intn(3) == 0 {
		alias = strconv.Itoa(1 + r.Intn(12))
	}
	field := fmt.Sprintf("(f 10 %s 2 (args %s) (dirs))", alias, strings.Join(args, " "))
	sibling := "(f 11 - 3 (args) (dirs))"
	frags := "(frags)"
	var under string
	switch r.Intn(4) {
	case 0:
		under = "(in 12 - (dirs) " + field + " " + sibling + ")"
	case 1:
		under = "(in 12 29 (dirs) " + field + ") " + sibling
	case 2:
		under = "(fr 12 1 (dirs)) " + sibling
		frags = "(frags (frag 1 29 " + field + "))"
	default:
		under = field + " " + sibling
	}
	which := []string{"5", "6", "5"}[r.Intn(3)]
	sel := fmt.Sprintf("(f 13 - %s (args) (dirs) %s)", which, under)
	if r.Intn(3) == 0 {
		sel += fmt.Sprintf(" (f 14 9 %s (args) (dirs) %s)", []string{"5", "6"}[r.Intn(2)], strings.ReplaceAll(strings.ReplaceAll(strings.ReplaceAll(strings.ReplaceAll(under, "(f 10 ", "(f 20 "), "(f 11 ", "(f 21 "), "(in 12 ", "(in 22 "), "(fr 12 ", "(fr 22 "))
	}
	var cs []string
	if calls < 1 {
		calls = 1
	}
	for c := 0; c < 1+r.Intn(calls); c++ {
		cs = append(cs, "(call - (vars "+strings.Join(vvals, " ")+"))")
	}
	text := fmt.Sprintf("(exec (schema %s %s) (strat %s) (graph %s) (root 1 -1) (any 1) (doc (ops (op query - (vars %s) %s)) %s) (calls %s))",
		leaves, strings.Join(types, " "), strings.Join(strat, " "), strings.Join(nodes, " "), strings.Join(vars, " "), sel, frags, strings.Join(cs, " "))
	input := mustParse(text)
	human, _ := docText(sx.List(input)[6].([]sx.S)[1:])
	return Case{ID: id, Input: input, Tags: []string{"arguments-across-container-types", "argument", "abstract-field", "list", "nontrivial"}, Human: human}
}

var profC06 = profile{pFail: 0.22, pIll: 0.1, pDir: 0.1, pAlias: 0.3, pFrag: 0.12, pInline: 0.12, pArgs: 0.8, pAny: 0.5, pBadCall: 0.05, pNullObj: 0.05, maxDepth: 4, calls: 1}
var profC08 = profile{pFail: 0.03, pIll: 0.01, pDir: 0.1, pAlias: 0.25, pFrag: 0.15, pInline: 0.3, pArgs: 0.8, pAny: 0.4, pBadCall: 0.0, pNullObj: 0.05, maxDepth: 4, calls: 1}
var profC09 = profile{respread: true, pFail: 0.03, pIll: 0.01, pDir: 0.6, pAlias: 0.25, pFrag: 0.12, pInline: 0.15, pArgs: 0.8, pAny: 0.3, pBadCall: 0.0, pNullObj: 0.05, maxDepth: 4, calls: 1}
var profC11 = profile{pFail: 0.05, pIll: 0.02, pDir: 0.3, pAlias: 0.3, pFrag: 0.1, pInline: 0.12, pArgs: 0.9, pAny: 0.4, pBadCall: 0.1, pNullObj: 0.1, maxDepth: 4, calls: 8}

func init() {
	props["C01"] = &Prop{Gen: execGen(profC01, 3000, 50000), Exec: execExec, Valid: execValid}
	props["C06"] = &Prop{Gen: execGen(profC06, 3000, 50000), Exec: execExec, Valid: execValid}
	c08Base := execGen(profC08, 3000, 50000)
	props["C08"] = &Prop{Gen: func(r *rand.Rand, tier string) []Case { return c08Unbind(c08Base(r, tier)) }, Exec: execExec, Valid: execValid}
	props["C09"] = &Prop{Gen: c09Gen, Exec: execExec, Valid: execValid}
	// C11: executor cases with several calls on one parsed document, and argument values (lists, input
	// objects with defaults) as literals and variable defaults of a document that is resolved twice
	c11Exec := execGen(profC11, 1500, 20000)
	c11Reuse := coerceGen("reuse")
	props["C11"] = &Prop{
		Gen: func(r *rand.Rand, tier string) []Case { return append(c11Exec(r, tier), c11Reuse(r, tier)...) },
		Exec: func(in sx.S) sx.S {
			if sx.Head(in) == "coerce" {
				return coerceExec(in)
			}
			return execExec(in)
		},
		Valid: func(in sx.S) bool {
			if sx.Head(in) == "coerce" {
				return coerceValid(in)
			}
			return execValid(in)
		}}
	props["C10"] = &Prop{Gen: c10Gen, Exec: execExec, Valid: execValid}
	_ = fmt.Sprint
}

// c08Unbind adds fixed cases in which the FIRST member of a union (T27, of which the graph holds no value)
// is bound to no Go type (section (unbind 27)): the values of the later members, whose Go types are
// registered, are resolved as their types all the same
func c08Unbind(cases []Case) []Case {
	docs := []string{
		`(f 1 - 3 (args) (dirs) (f 2 - 0 (args) (dirs)) (in 3 20 (dirs) (f 4 - 1 (args) (dirs))) (in 5 21 (dirs) (f 6 - 2 (args) (dirs)))) (f 7 - 4 (args) (dirs) (in 8 21 (dirs) (f 9 - 2 (args) (dirs))) (f 10 - 0 (args) (dirs)))`,
		`(f 1 - 4 (args) (dirs) (f 2 - 0 (args) (dirs)))`,
		`(f 1 7 3 (args) (dirs) (in 2 29 (dirs) (f 3 - 0 (args) (dirs)) (in 4 20 (dirs) (f 5 8 1 (args) (dirs)))))`,
	}
	for i, d := range docs {
		for _, st := range []string{"R", "A"} {
			anyv := "0"
			if st == "A" {
				anyv = "1"
			}
			text := `(exec (schema (leaf 10 int) (leaf 11 string) (obj 20 (fields (f 1 (n 10) (args))) (ifaces)) (obj 21 (fields (f 2 (n 11) (args))) (ifaces))` +
				` (obj 27 (fields (f 1 (n 10) (args))) (ifaces)) (union 29 (members 27 20 21))` +
				` (obj 1 (fields (f 3 (l (n 29)) (args)) (f 4 (n 29) (args))) (ifaces)))` +
				` (strat (20 ` + st + `) (21 ` + st + `) (27 ` + st + `) (1 R))` +
				` (graph (node 1 1 (field 3 (const (list (node 2) (node 3) nil (node 2)))) (field 4 (const (node 3)))) (node 2 20 (field 1 (const (int 5)))) (node 3 21 (field 2 (const (str 1)))))` +
				` (root 1 -1) (any ` + anyv + `) (doc (ops (op query - (vars) ` + d + `)) (frags)) (calls (call - (vars))) (unbind 27))`
			in, err := sx.Parse(text)
			if err != nil {
				panic(err)
			}
			cases = append(cases, Case{ID: fmt.Sprintf("u%d%s", i, st), Input: in, Tags: []string{"nontrivial", "first-union-member-unbound"},
				Human: "union T29 = T27 | T20 | T21 with T27 bound to no Go type; values of T20 and T21"})
		}
	}
	return cases
}

// c09Gen: the full combination table of the property's quantifier, embedded at three depths on each of
// the three selection kinds, followed by random documents dense in directives.
func c09Gen(r *rand.Rand, tier string) []Case {
	var cases []Case
	conds := []string{"-", "(b 1)", "(b 0)", "(v 1)", "(v 2)", "(v 3)", "(v 4)"}
	schema := `(schema (leaf 10 int) (leaf 11 string) (leaf 12 bool) (leaf 13 id) (leaf 14 float) ` +
		`(obj 20 (fields (f 1 (n 20) (args)) (f 2 (n 10) (args))) (ifaces)) ` +
		`(obj 1 (fields (f 1 (n 20) (args)) (f 2 (n 10) (args))) (ifaces)))`
	graph := `(graph (node 1 1 (field 1 (const (node 2))) (field 2 (const (int 1)))) ` +
		`(node 2 20 (field 1 (const (node 2))) (field 2 (const (int 2)))))`
	n := 0
	for _, sk := range conds {
		for _, inc := range conds {
			for order := 0; order < 2; order++ {
				for kind := 0; kind < 3; kind++ {
					for depth := 1; depth <= 3; depth++ {
						ds := ""
						if sk != "-" {
							ds = "(d skip " + sk + ")"
						}
						di := ""
						if inc != "-" {
							di = "(d include " + inc + ")"
						}
						dirs := "(dirs " + ds + " " + di + ")"
						if order == 1 {
							dirs = "(dirs " + di + " " + ds + ")"
						}
						var sel string
						frags := "(frags)"
						ct := 20
						if depth == 1 {
							ct = 1
						}
						switch kind {
						case 0:
							sel = "(f 50 5 2 (args) " + dirs + ")"
						case 1:
							sel = "(in 50 - " + dirs + " (f 51 5 2 (args) (dirs)))"
						default:
							sel = "(fr 50 1 " + dirs + ")"
							frags = fmt.Sprintf("(frags (frag 1 %d (f 51 5 2 (args) (dirs))))", ct)
						}
						body := sel + " (f 60 - 2 (args) (dirs))"
						for dd := depth; dd > 1; dd-- {
							body = fmt.Sprintf("(f %d - 1 (args) (dirs) %s)", 70+dd, body)
						}
						doc := "(doc (ops (op query 1 (vars (v 1 (n 12) -) (v 2 (n 12) -) (v 3 (n 12) (b 1)) (v 4 (n 12) (b 0))) " + body + ")) " + frags + ")"
						in := "(exec " + schema + " (strat (20 R) (1 R)) " + graph + " (root 1 -1) (any 0) " + doc +
							" (calls (call 1 (vars (1 (b 1)) (2 (b 0))))))"
						v, err := sx.Parse(in)
						if err != nil {
							panic(err)
						}
						n++
						tags := []string{"table", "directive", "nontrivial"}
						if sk != "-" && inc != "-" {
							tags = append(tags, "two-directives")
						}
						text, _ := docText(section(sx.List(v)[1:], "doc"))
						cases = append(cases, Case{ID: fmt.Sprintf("t%d", n), Input: v, Tags: tags, Human: text})
					}
				}
			}
		}
	}
	nrand := 1500
	if tier == "thorough" {
		nrand = 30000
	}
	for i := 0; i < nrand; i++ {
		p := profC09
		if i%2 == 1 {
			p.calls = 4 // the same parsed document resolved again with other variable values
		}
		cases = append(cases, genExecCase(r, &p, "g"+strconv.Itoa(i)))
	}
	return cases
}

var profC10 = profile{noWrongType: true, unboundValues: true, pFail: 0.03, pIll: 0.01, pDir: 0.15, pAlias: 0.3, pFrag: 0.12, pInline: 0.15, pArgs: 0.85, pAny: 0.4, pBadCall: 0.0, pNullObj: 0.05, maxDepth: 4, calls: 1}

// c10Gen: valid documents with exactly one injected defect of the property's catalogue.
func c10Gen(r *rand.Rand, tier string) []Case {
	kinds := []string{"unknown-field", "undeclared-arg", "missing-required", "unknown-directive", "misplaced-directive",
		"undefined-inline-cond", "undefined-fragment-cond", "directive-on-fragment-definition", "meta-field", "typename-arg", "undeclared-directive-arg", "undeclared-variable"}
	n := 3500
	if tier == "thorough" {
		n = 50000
	}
	var cases []Case
	for i := 0; i < n; i++ {
		p := profC10
		p.defect = kinds[i%len(kinds)]
		if i%5 == 0 {
			p.calls = 3
		}
		c := genExecCase(r, &p, "g"+strconv.Itoa(i))
		cases = append(cases, c)
	}
	return cases
}
