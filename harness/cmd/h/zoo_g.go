package main

// The struct zoo of C02: one Go type per GraphQL object type id whose GraphQL fields f1..f8 are found by
// ggql as the struct fields F1..F8, promoted from an embedded struct; the values are placed when the
// object is built (only object types without arguments whose data does not fail can be served this way).

type gFields struct{ F1, F2, F3, F4, F5, F6, F7, F8 interface{} }

type G1 struct {
	nodeBase
	gFields
}

type G2 struct {
	nodeBase
	gFields
}

type G20 struct {
	nodeBase
	gFields
}

type G21 struct {
	nodeBase
	gFields
}

type G22 struct {
	nodeBase
	gFields
}

type G23 struct {
	nodeBase
	gFields
}

type G24 struct {
	nodeBase
	gFields
}

type G25 struct {
	nodeBase
	gFields
}

type G26 struct {
	nodeBase
	gFields
}

type G27 struct {
	nodeBase
	gFields
}

func newStructObj(w *world, id, gotype int) (interface{}, *gFields) {
	b := nodeBase{id: id, w: w}
	switch gotype {
	case 1:
		o := &G1{nodeBase: b}
		return o, &o.gFields
	case 2:
		o := &G2{nodeBase: b}
		return o, &o.gFields
	case 20:
		o := &G20{nodeBase: b}
		return o, &o.gFields
	case 21:
		o := &G21{nodeBase: b}
		return o, &o.gFields
	case 22:
		o := &G22{nodeBase: b}
		return o, &o.gFields
	case 23:
		o := &G23{nodeBase: b}
		return o, &o.gFields
	case 24:
		o := &G24{nodeBase: b}
		return o, &o.gFields
	case 25:
		o := &G25{nodeBase: b}
		return o, &o.gFields
	case 26:
		o := &G26{nodeBase: b}
		return o, &o.gFields
	case 27:
		o := &G27{nodeBase: b}
		return o, &o.gFields
	}
	return nil, nil
}

// structObj builds the object of node id and fills its fields from the node's (constant) behaviours;
// the object is known to the world before its fields are filled, the data may be cyclic
func (w *world) structObj(id, gotype int) interface{} {
	o, fs := newStructObj(w, id, gotype)
	if o == nil {
		return nil
	}
	w.objs[id] = o
	if n := w.nodes[id]; n != nil {
		for k, b := range n.fields {
			v := typedSlice(w.goValue(b.v))
			if w.objField[[2]int{gotype, k}] && (id+k)%3 == 0 {
				v = w.structValue(v) // the struct itself, not a pointer to it, where an object type is declared
			}
			switch k {
			case 1:
				fs.F1 = v
			case 2:
				fs.F2 = v
			case 3:
				fs.F3 = v
			case 4:
				fs.F4 = v
			case 5:
				fs.F5 = v
			case 6:
				fs.F6 = v
			case 7:
				fs.F7 = v
			case 8:
				fs.F8 = v
			}
		}
	}
	w.filled[id] = true
	return o
}

// structValue: a pointer to a G struct becomes the struct value it points to (a copy: only of an
// object that is complete, the data may be cyclic)
func (w *world) structValue(v interface{}) interface{} {
	switch t := v.(type) {
	case *G1:
		if t != nil && w.filled[t.id] {
			return *t
		}
	case *G2:
		if t != nil && w.filled[t.id] {
			return *t
		}
	case *G20:
		if t != nil && w.filled[t.id] {
			return *t
		}
	case *G21:
		if t != nil && w.filled[t.id] {
			return *t
		}
	case *G22:
		if t != nil && w.filled[t.id] {
			return *t
		}
	case *G23:
		if t != nil && w.filled[t.id] {
			return *t
		}
	case *G24:
		if t != nil && w.filled[t.id] {
			return *t
		}
	case *G25:
		if t != nil && w.filled[t.id] {
			return *t
		}
	case *G26:
		if t != nil && w.filled[t.id] {
			return *t
		}
	case *G27:
		if t != nil && w.filled[t.id] {
			return *t
		}
	}
	return v
}
