package main

// Free-running stress of the subscription registry (no yield hooks), meant to be built with -race.
// Supporting evidence for C20 only: the block-level theorem assumes critical sections are atomic;
// the race detector and these log checks look for violations of that assumption.

import (
	"fmt"
	"math/rand"
	"os"
	"sort"
	"strconv"
	"sync"
	"sync/atomic"
	"time"

	"github.com/uhn/ggql/pkg/ggql"
)

type stressLog struct {
	mu      sync.Mutex
	seq     int64
	sends   map[[2]int]int  // (uid, event value) -> count
	sendSeq map[int][]int64 // uid -> seqs of Send entries
	clean   map[int][]int64 // uid -> seqs of cleanups
}

type ssub struct {
	uid, pat int
	failAt   int32
	n        int32
	log      *stressLog
}

func (s *ssub) Send(v interface{}) error {
	m, _ := v.(map[string]interface{})
	val := -1
	switch t := m["f0"].(type) {
	case int32:
		val = int(t)
	case int:
		val = t
	}
	s.log.mu.Lock()
	s.log.seq++
	s.log.sends[[2]int{s.uid, val}]++
	s.log.sendSeq[s.uid] = append(s.log.sendSeq[s.uid], s.log.seq)
	s.log.mu.Unlock()
	if n := atomic.AddInt32(&s.n, 1); s.failAt > 0 && n >= s.failAt {
		return fmt.Errorf("fail")
	}
	return nil
}
func (s *ssub) Match(id string) bool { return s.pat < 0 || id == "e"+strconv.Itoa(s.pat) }
func (s *ssub) Unsubscribe() {
	s.log.mu.Lock()
	s.log.seq++
	s.log.clean[s.uid] = append(s.log.clean[s.uid], s.log.seq)
	s.log.mu.Unlock()
}

type stressSubRoot struct{ log *stressLog }

func (s *stressSubRoot) Resolve(f *ggql.Field, args map[string]interface{}) (interface{}, error) {
	p, _ := args["p"].(int32)
	u, _ := args["u"].(int32)
	fa, _ := args["s"].(string)
	n, _ := strconv.Atoi(fa)
	return ggql.NewSubscription(&ssub{uid: int(u), pat: int(p), failAt: int32(n), log: s.log}, f, args), nil
}

type stressSchema struct{ Subscription *stressSubRoot }

func (s *stressSchema) Resolve(f *ggql.Field, _ map[string]interface{}) (interface{}, error) {
	if f.Name == "subscription" {
		return s.Subscription, nil
	}
	return nil, nil
}

type pubRec struct {
	start, end int64
	id, val    int
}
type subRec struct {
	uid, pat int
	ret      int64
}

// stressWorkersDone is closed when every worker has come back from the library
var stressWorkersDone = make(chan struct{})

func stress20(dur time.Duration, workers int, seed int64, maxOps int64) int {
	log := &stressLog{sends: map[[2]int]int{}, sendSeq: map[int][]int64{}, clean: map[int][]int64{}}
	root := ggql.NewRoot(&stressSchema{Subscription: &stressSubRoot{log: log}})
	if err := root.ParseString(c19SDL); err != nil {
		fmt.Println("stress: schema error", err)
		return 1
	}
	var uidc, valc int64
	var wg sync.WaitGroup
	var pmu sync.Mutex
	var pubs []pubRec
	var subs []subRec
	stamp := func() int64 { log.mu.Lock(); log.seq++; s := log.seq; log.mu.Unlock(); return s }
	deadline := time.Now().Add(dur)
	var ops int64
	for w := 0; w < workers; w++ {
		wg.Add(1)
		go func(w int) {
			defer wg.Done()
			r := rand.New(rand.NewSource(seed*1000 + int64(w)))
			for time.Now().Before(deadline) {
				if atomic.AddInt64(&ops, 1) > maxOps {
					return
				}
				switch x := r.Intn(10); {
				case x < 3:
					u := int(atomic.AddInt64(&uidc, 1))
					p := r.Intn(3) - 1
					fa := 0
					if r.Intn(3) == 0 {
						fa = 1 + r.Intn(3)
					}
					root.ResolveString(fmt.Sprintf(`subscription { w(p: %d, s: "%d", u: %d) { f0 } }`, p, fa, u), "", nil)
					ret := stamp()
					pmu.Lock()
					subs = append(subs, subRec{uid: u, pat: p, ret: ret})
					pmu.Unlock()
				case x < 8:
					v := int(atomic.AddInt64(&valc, 1))
					id := r.Intn(2)
					st := stamp()
					_, _ = root.AddEvent("e"+strconv.Itoa(id), &evObj{vals: []int{v, 0, 0, 0}})
					en := stamp()
					pmu.Lock()
					pubs = append(pubs, pubRec{start: st, end: en, id: id, val: v})
					pmu.Unlock()
				default:
					root.Unsubscribe("e" + strconv.Itoa(r.Intn(2)))
				}
			}
		}(w)
	}
	wg.Wait()
	close(stressWorkersDone) // the library part is over: what follows is this file's own reading of the logs
	// checks on the logs
	for k, c := range log.sends {
		if c > 1 {
			fmt.Printf("stress: FAIL publish %d delivered %d times to subscriber %d\n", k[1], c, k[0])
			return 1
		}
	}
	for u, cs := range log.clean {
		if len(cs) > 1 {
			fmt.Printf("stress: FAIL subscriber %d cleaned up %d times\n", u, len(cs))
			return 1
		}
		for _, s := range log.sendSeq[u] {
			if s > cs[0] {
				fmt.Printf("stress: FAIL delivery to subscriber %d after its clean-up\n", u)
				return 1
			}
		}
	}
	missed := 0
	// publishes by event id in the order of their start stamps: a subscriber is looked up only in the
	// publishes that started after its request returned and before it was cleaned up
	byID := map[int][]pubRec{}
	for _, p := range pubs {
		byID[p.id] = append(byID[p.id], p)
	}
	for _, l := range byID {
		sort.Slice(l, func(i, j int) bool { return l[i].start < l[j].start })
	}
	for _, s := range subs {
		var cl0 int64 = -1
		if cl := log.clean[s.uid]; len(cl) > 0 {
			cl0 = cl[0]
		}
		for id, l := range byID {
			if s.pat >= 0 && s.pat != id {
				continue
			}
			k := sort.Search(len(l), func(i int) bool { return l[i].start > s.ret })
			for _, p := range l[k:] {
				if cl0 >= 0 && cl0 < p.start {
					break // every later publish started after the clean-up
				}
				if cl0 >= 0 && cl0 < p.end {
					continue
				}
				if log.sends[[2]int{s.uid, p.val}] == 0 {
					missed++
				}
			}
		}
	}
	if missed > 0 {
		fmt.Printf("stress: FAIL %d live matching subscribers missed an event published after their subscription returned\n", missed)
		return 1
	}
	fmt.Printf("stress: ok ops=%d subscribers=%d publishes=%d\n", ops, len(subs), len(pubs))
	return 0
}

func stressMain(args []string) {
	dur := 5 * time.Second
	workers := 16
	seed := int64(1)
	maxOps := int64(20000)
	for i := 0; i+1 < len(args); i += 2 {
		switch args[i] {
		case "-dur":
			dur, _ = time.ParseDuration(args[i+1])
		case "-workers":
			workers, _ = strconv.Atoi(args[i+1])
		case "-ops":
			maxOps, _ = strconv.ParseInt(args[i+1], 10, 64)
		case "-seed":
			seed, _ = strconv.ParseInt(args[i+1], 10, 64)
		}
	}
	// a run that does not come back (every worker blocked in the library) is a deadlock, not a hang of the check
	go func() {
		select {
		case <-stressWorkersDone:
		case <-time.After(dur + 45*time.Second):
			fmt.Printf("stress20: FAIL deadlock: the workers did not come back within %v + 45s (blocked in the library)\n", dur)
			os.Exit(1)
		}
	}()
	os.Exit(stress20(dur, workers, seed, maxOps))
}
