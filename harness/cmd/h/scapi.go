package main

// C14: definitions handed to Root.AddTypes as Go values built with the public API, instead of as SDL text.

import (
	"fmt"

	"github.com/uhn/ggql/pkg/ggql"
)

func scAPIRef(t scT) ggql.Type {
	switch t.K {
	case 1:
		return &ggql.List{Base: scAPIRef(*t.Of)}
	case 2:
		return &ggql.NonNull{Base: scAPIRef(*t.Of)}
	}
	return &ggql.Ref{Base: ggql.Base{N: scTypeName(t.N)}}
}

// scAPIExpressible: what scAPIType can build (no extension, directive use, default or description: those
// carry Go values whose SDL reading is part of the reader, not of AddTypes)
func scAPIExpressible(it scItem) bool {
	// (a scalar neither: `scalar X` in SDL is a string-like scalar with coercers of ggql's own; a bare
	// ggql.Scalar value is no input or output type, an application embeds it in a type of its own)
	if it.Ext || it.Desc != "" || len(it.Dirs) > 0 || it.K == kDirective || it.K == kScalar {
		return false
	}
	for _, f := range it.Fields {
		if f.Desc != "" || len(f.Dirs) > 0 {
			return false
		}
		for _, a := range f.Args {
			if a.Desc != "" || len(a.Dirs) > 0 || a.Def != nil {
				return false
			}
		}
	}
	for _, a := range it.Inputs {
		if a.Desc != "" || len(a.Dirs) > 0 || a.Def != nil {
			return false
		}
	}
	for _, v := range it.Vals {
		if v.Desc != "" || len(v.Dirs) > 0 {
			return false
		}
	}
	return true
}

func scAPIFields(it scItem, add func(*ggql.FieldDef) error) error {
	for _, f := range it.Fields {
		fd := &ggql.FieldDef{Base: ggql.Base{N: scFieldName(f.N, it.K == kSchema)}, Type: scAPIRef(f.T)}
		for _, a := range f.Args {
			if err := fd.AddArg(&ggql.Arg{Base: ggql.Base{N: scArgName(a.N)}, Type: scAPIRef(a.T)}); err != nil {
				return err
			}
		}
		if err := add(fd); err != nil {
			return err
		}
	}
	return nil
}

// scAPIType builds one definition. An error is a refusal by the building calls themselves (a member given
// twice): the load is then refused before AddTypes is reached, as the reader refuses the text.
func scAPIType(root *ggql.Root, it scItem) (ggql.Type, error) {
	switch it.K {
	case kObject:
		o := &ggql.Object{Base: ggql.Base{N: scTypeName(it.N)}}
		for _, i := range it.Ifaces {
			o.Interfaces = append(o.Interfaces, &ggql.Ref{Base: ggql.Base{N: scTypeName(i)}})
		}
		return o, scAPIFields(it, o.AddField)
	case kInterface:
		o := &ggql.Interface{Base: ggql.Base{N: scTypeName(it.N)}, Root: root}
		return o, scAPIFields(it, o.AddField)
	case kSchema:
		o := &ggql.Schema{Object: ggql.Object{}}
		return o, scAPIFields(it, o.AddField)
	case kUnion:
		u := &ggql.Union{Base: ggql.Base{N: scTypeName(it.N)}}
		for _, m := range it.Members {
			u.Members = append(u.Members, &ggql.Ref{Base: ggql.Base{N: scTypeName(m)}})
		}
		return u, nil
	case kEnum:
		e := &ggql.Enum{Base: ggql.Base{N: scTypeName(it.N)}}
		for _, v := range it.Vals {
			if err := e.AddValue(&ggql.EnumValue{Value: ggql.Symbol(scValName(v.N))}); err != nil {
				return nil, err
			}
		}
		return e, nil
	case kInput:
		in := &ggql.Input{Base: ggql.Base{N: scTypeName(it.N)}}
		for _, a := range it.Inputs {
			if err := in.AddField(&ggql.InputField{Base: ggql.Base{N: scFieldName(a.N, false)}, Type: scAPIRef(a.T)}); err != nil {
				return nil, err
			}
		}
		return in, nil
	}
	return nil, fmt.Errorf("not expressible")
}

func scAPILoad(root *ggql.Root, items []scItem) error {
	var types []ggql.Type
	for _, it := range items {
		t, err := scAPIType(root, it)
		if err != nil {
			return err
		}
		types = append(types, t)
	}
	return root.AddTypes(types...)
}
