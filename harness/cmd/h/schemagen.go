package main

// Generators for the schema core: well-formed definition sets, single-rule violations, and
// arrangements (orders, partitions into loads, extend-splits).

import (
	"fmt"
	"math/rand"

	"verifharness/sx"
)

type scGenState struct {
	r        *rand.Rand
	items    []scItem
	enums    []int         // enum type ids
	enumVals map[int][]int // enum -> values
	scalars  []int
	inputs   []int
	ifaces   []int
	objects  []int
	unions   []int
	dirs     []scItem // user directive definitions so far
	next     int
	desc     int
}

func (g *scGenState) fresh() int { g.next++; return g.next }

func (g *scGenState) descr() string {
	if g.r.Intn(3) != 0 {
		return ""
	}
	g.desc++
	return fmt.Sprintf("about %d", g.desc)
}

func (g *scGenState) wrap(t scT) scT {
	for i := 0; i < 3; i++ {
		switch g.r.Intn(5) {
		case 0:
			o := t
			t = scT{K: 1, Of: &o}
		case 1:
			if t.K != 2 {
				o := t
				t = scT{K: 2, Of: &o}
			}
		}
	}
	return t
}

// a constant coercible to t (types the model judges), or nil
func (g *scGenState) constFor(t scT, depth int) *scV {
	switch t.K {
	case 2:
		v := g.constFor(*t.Of, depth)
		if v == nil || v.K == "null" {
			return nil
		}
		return v
	case 1:
		if g.r.Intn(4) == 0 {
			return &scV{K: "null"}
		}
		out := scV{K: "l"}
		for i := g.r.Intn(3); i > 0; i-- {
			e := g.constFor(*t.Of, depth+1)
			if e == nil {
				return nil
			}
			out.L = append(out.L, *e)
		}
		return &out
	}
	if g.r.Intn(6) == 0 {
		return &scV{K: "null"}
	}
	switch t.N {
	case 0:
		return &scV{K: "i", I: int64(g.r.Intn(2000) - 1000)}
	case 1, 6, 7:
		return &scV{K: "i", I: int64(g.r.Intn(2000) - 1000)}
	case 2:
		return &scV{K: "s", I: int64(1 + g.r.Intn(50))}
	case 3:
		return &scV{K: "b", I: int64(g.r.Intn(2))}
	case 4:
		if g.r.Intn(2) == 0 {
			return &scV{K: "s", I: int64(1 + g.r.Intn(50))}
		}
		return &scV{K: "i", I: int64(g.r.Intn(1000))}
	}
	if vs, ok := g.enumVals[t.N]; ok {
		return &scV{K: "y", I: int64(vs[g.r.Intn(len(vs))])}
	}
	return nil
}

// a default value: an explicit "= null" is not told apart from no default by the root, so it is not generated
func (g *scGenState) defFor(t scT) *scV {
	v := g.constFor(t, 0)
	if v != nil && v.K == "null" {
		return nil
	}
	return v
}

// an input type reference among what is defined so far
func (g *scGenState) inputType(allowInputObj bool) scT {
	cands := []int{0, 1, 2, 3, 4}
	cands = append(cands, g.enums...)
	cands = append(cands, g.scalars...)
	if allowInputObj {
		cands = append(cands, g.inputs...)
	}
	return g.wrap(scT{N: cands[g.r.Intn(len(cands))]})
}

func (g *scGenState) outputType() scT {
	cands := []int{0, 1, 2, 3, 4}
	cands = append(cands, g.enums...)
	cands = append(cands, g.scalars...)
	cands = append(cands, g.ifaces...)
	cands = append(cands, g.objects...)
	cands = append(cands, g.objects...)
	cands = append(cands, g.unions...)
	return g.wrap(scT{N: cands[g.r.Intn(len(cands))]})
}

// uses of user directives (and @deprecated) legal at loc
func (g *scGenState) uses(loc int) []scDU {
	var out []scDU
	if g.r.Intn(2) != 0 {
		return nil
	}
	if (loc == 10 || loc == 15) && g.r.Intn(2) == 0 {
		du := scDU{N: 2}
		if g.r.Intn(2) == 0 {
			du.Args = []scAV{{N: 1, V: scV{K: "s", I: int64(1 + g.r.Intn(50))}}}
		}
		out = append(out, du)
	}
	for _, d := range g.dirs {
		ok := false
		for _, l := range d.Locs {
			if l == loc {
				ok = true
			}
		}
		if !ok || g.r.Intn(2) == 0 {
			continue
		}
		du := scDU{N: d.N}
		good := true
		for _, a := range d.Inputs {
			required := a.T.K == 2 && a.Def == nil
			if required || g.r.Intn(2) == 0 {
				v := g.constFor(a.T, 0)
				if v == nil {
					if required {
						good = false
					}
					continue
				}
				du.Args = append(du.Args, scAV{N: a.N, V: *v})
			}
		}
		if good {
			out = append(out, du)
		}
	}
	return out
}

func (g *scGenState) args(loc int, max int) []scArg {
	var out []scArg
	for i := g.r.Intn(max + 1); i > 0; i-- {
		a := scArg{N: 10 + g.fresh(), Desc: g.descr(), T: g.inputType(true), Dirs: g.uses(loc)}
		if g.r.Intn(3) == 0 {
			a.Def = g.defFor(a.T)
		}
		out = append(out, a)
	}
	return out
}

func (g *scGenState) fields(n int) []scField {
	var out []scField
	for i := 0; i < n; i++ {
		out = append(out, scField{N: 10 + g.fresh(), Desc: g.descr(), T: g.outputType(), Args: g.args(11, 2), Dirs: g.uses(10)})
	}
	return out
}

func (g *scGenState) add(it scItem) { g.items = append(g.items, it) }

// scWellFormed generates a well-formed definition set in dependency order.
func scWellFormed(r *rand.Rand, size int) []scItem {
	g := &scGenState{r: r, enumVals: map[int][]int{}, next: 0}
	tid := func() int { return 20 + g.fresh() }
	enum := func(withDirs bool) {
		it := scItem{K: kEnum, N: tid(), Desc: g.descr()}
		for i := 1 + r.Intn(3); i > 0; i-- {
			v := scEV{N: 10 + g.fresh(), Desc: g.descr()}
			if withDirs {
				v.Dirs = g.uses(15)
			}
			it.Vals = append(it.Vals, v)
			g.enumVals[it.N] = append(g.enumVals[it.N], v.N)
		}
		if withDirs {
			it.Dirs = g.uses(14)
		}
		g.enums = append(g.enums, it.N)
		g.add(it)
	}
	enum(false)
	// directives: arguments of scalar/enum types; a directive may use earlier directives on its arguments
	for i := r.Intn(size + 1); i > 0; i-- {
		it := scItem{K: kDirective, N: 10 + g.fresh(), Desc: g.descr()}
		for j := r.Intn(3); j > 0; j-- {
			a := scArg{N: 10 + g.fresh(), Desc: g.descr(), T: g.inputType(false), Dirs: g.uses(11)}
			if r.Intn(2) == 0 {
				a.Def = g.defFor(a.T)
			}
			it.Inputs = append(it.Inputs, a)
		}
		locs := r.Perm(11)
		for _, l := range locs[:2+r.Intn(6)] {
			it.Locs = append(it.Locs, 7+l)
		}
		g.dirs = append(g.dirs, it)
		g.add(it)
	}
	for i := r.Intn(2); i > 0; i-- {
		it := scItem{K: kScalar, N: tid(), Desc: g.descr(), Dirs: g.uses(8)}
		g.scalars = append(g.scalars, it.N)
		g.add(it)
	}
	for i := r.Intn(size); i > 0; i-- {
		enum(true)
	}
	for i := r.Intn(size); i > 0; i-- {
		it := scItem{K: kInput, N: tid(), Desc: g.descr(), Dirs: g.uses(16)}
		for j := 1 + r.Intn(3); j > 0; j-- {
			a := scArg{N: 10 + g.fresh(), Desc: g.descr(), T: g.inputType(true), Dirs: g.uses(17)}
			if r.Intn(3) == 0 {
				a.Def = g.defFor(a.T)
			}
			it.Inputs = append(it.Inputs, a)
		}
		g.inputs = append(g.inputs, it.N)
		g.add(it)
	}
	ifaceFields := map[int][]scField{}
	unionMembers := map[int][]int{}
	implementers := map[int][]int{}
	for i := r.Intn(size + 1); i > 0; i-- {
		it := scItem{K: kInterface, N: tid(), Desc: g.descr(), Dirs: g.uses(12)}
		it.Fields = g.fields(1 + r.Intn(2))
		ifaceFields[it.N] = it.Fields
		g.ifaces = append(g.ifaces, it.N)
		g.add(it)
	}
	nobj := 1 + r.Intn(size+1)
	for i := 0; i < nobj; i++ {
		it := scItem{K: kObject, N: tid(), Desc: g.descr(), Dirs: g.uses(9)}
		if i == nobj-1 && r.Intn(4) != 0 {
			it.N = 10
			if r.Intn(6) == 0 {
				it.N = 12
			}
		} else if i == nobj-2 && r.Intn(3) == 0 {
			it.N = 11
		} else if i == nobj-3 && r.Intn(2) == 0 {
			it.N = 12
		}
		for _, have := range g.objects { // one object per operation name
			if have == it.N {
				it.N = tid()
			}
		}
		for _, in := range g.ifaces {
			if r.Intn(2) != 0 {
				continue
			}
			clash := false
			for _, f := range ifaceFields[in] {
				for _, have := range it.Fields {
					if have.N == f.N {
						clash = true
					}
				}
			}
			if clash {
				continue
			}
			it.Ifaces = append(it.Ifaces, in)
			for _, f := range ifaceFields[in] {
				nf := scField{N: f.N, Desc: g.descr(), T: f.T, Dirs: g.uses(10)}
				// covariance: a member of the union / an implementer of the interface, under the same wrappers
				if r.Intn(2) == 0 {
					nf.T = scNarrow(r, nf.T, unionMembers, implementers)
				}
				// covariance: T -> T!
				if nf.T.K != 2 && r.Intn(3) == 0 {
					o := nf.T
					nf.T = scT{K: 2, Of: &o}
				}
				for _, a := range f.Args {
					nf.Args = append(nf.Args, scArg{N: a.N, Desc: g.descr(), T: a.T, Def: a.Def})
				}
				if r.Intn(3) == 0 { // an extra optional argument
					nf.Args = append(nf.Args, scArg{N: 10 + g.fresh(), T: scT{N: r.Intn(5)}})
				}
				it.Fields = append(it.Fields, nf)
			}
		}
		it.Fields = append(it.Fields, g.fields(1+r.Intn(2))...)
		g.objects = append(g.objects, it.N)
		for _, in := range it.Ifaces {
			implementers[in] = append(implementers[in], it.N)
		}
		g.add(it)
		if r.Intn(3) == 0 && len(g.objects) > 0 {
			u := scItem{K: kUnion, N: tid(), Desc: g.descr(), Dirs: g.uses(13)}
			for _, p := range r.Perm(len(g.objects)) {
				if len(u.Members) < 3 {
					u.Members = append(u.Members, g.objects[p])
				}
			}
			g.unions = append(g.unions, u.N)
			unionMembers[u.N] = u.Members
			g.add(u)
		}
	}
	// interface fields of abstract and object types, wrapped in lists, provided by the implementers
	// with the same or a narrower type
	for ii := range g.items {
		in := &g.items[ii]
		if in.K != kInterface || r.Intn(4) == 0 {
			continue
		}
		cands := append(append([]int{}, g.unions...), g.unions...)
		for _, o := range g.ifaces {
			if o != in.N {
				cands = append(cands, o)
			}
		}
		if len(cands) == 0 {
			continue
		}
		cands = append(cands, g.objects...)
		base := scT{N: cands[r.Intn(len(cands))]}
		f := scField{N: 10 + g.fresh(), T: scDeepWrap(r, scT{K: 1, Of: &base})}
		in.Fields = append(in.Fields, f)
		for oi := range g.items {
			o := &g.items[oi]
			if o.K != kObject {
				continue
			}
			for _, i := range o.Ifaces {
				if i == in.N {
					nf := scField{N: f.N, T: f.T}
					if r.Intn(3) != 0 {
						nf.T = scNarrow(r, nf.T, unionMembers, implementers)
					}
					if nf.T.K != 2 && r.Intn(3) == 0 {
						t := nf.T
						nf.T = scT{K: 2, Of: &t}
					}
					o.Fields = append([]scField{nf}, o.Fields...)
				}
			}
		}
	}
	if r.Intn(4) == 0 {
		s := scItem{K: kSchema, N: 0, Dirs: g.uses(7)}
		ops := r.Perm(3)
		for _, o := range ops[:1+r.Intn(2)] {
			s.Fields = append(s.Fields, scField{N: 1 + o, T: scT{N: g.objects[r.Intn(len(g.objects))]}})
		}
		g.add(s)
	}
	return g.items
}

// scNarrow replaces the named type inside t by one of its sub-types, if it has any.
func scNarrow(r *rand.Rand, t scT, unionMembers, implementers map[int][]int) scT {
	if t.Of != nil {
		o := scNarrow(r, *t.Of, unionMembers, implementers)
		return scT{K: t.K, Of: &o}
	}
	subs := append(append([]int{}, unionMembers[t.N]...), implementers[t.N]...)
	if len(subs) == 0 {
		return t
	}
	return scT{N: subs[r.Intn(len(subs))]}
}

// ---- single-rule violations ----

type scMut struct {
	name string
	f    func(r *rand.Rand, items []scItem) bool
}

func scPick(r *rand.Rand, items []scItem, pred func(it *scItem) bool) *scItem {
	var c []int
	for i := range items {
		if pred(&items[i]) {
			c = append(c, i)
		}
	}
	if len(c) == 0 {
		return nil
	}
	return &items[c[r.Intn(len(c))]]
}

func scHasFields(it *scItem) bool {
	return (it.K == kObject || it.K == kInterface) && len(it.Fields) > 0
}

func scDeepWrap(r *rand.Rand, t scT) scT {
	for i := r.Intn(3); i > 0; i-- {
		o := t
		t = scT{K: 1, Of: &o}
		if r.Intn(2) == 0 {
			o2 := t
			t = scT{K: 2, Of: &o2}
		}
	}
	return t
}

func scKindIDs(items []scItem, k int) []int {
	var out []int
	for _, it := range items {
		if it.K == k && !it.Ext {
			out = append(out, it.N)
		}
	}
	return out
}

var scMuts = []scMut{
	{"undefined-field-type", func(r *rand.Rand, items []scItem) bool {
		it := scPick(r, items, scHasFields)
		if it == nil {
			return false
		}
		it.Fields[r.Intn(len(it.Fields))].T = scDeepWrap(r, scT{N: 900 + r.Intn(50)})
		return true
	}},
	{"undefined-arg-type", func(r *rand.Rand, items []scItem) bool {
		it := scPick(r, items, func(it *scItem) bool {
			if !scHasFields(it) {
				return false
			}
			for _, f := range it.Fields {
				if len(f.Args) > 0 {
					return true
				}
			}
			return false
		})
		if it == nil || len(it.Ifaces) > 0 {
			return false
		}
		for i := range it.Fields {
			if len(it.Fields[i].Args) > 0 {
				it.Fields[i].Args[0].T = scDeepWrap(r, scT{N: 900 + r.Intn(50)})
				return true
			}
		}
		return false
	}},
	{"undefined-directive", func(r *rand.Rand, items []scItem) bool {
		it := scPick(r, items, func(it *scItem) bool { return it.K != kDirective })
		if it == nil {
			return false
		}
		du := scDU{N: 900 + r.Intn(50)}
		switch {
		case len(it.Fields) > 0 && r.Intn(2) == 0 && it.K != kSchema:
			f := &it.Fields[r.Intn(len(it.Fields))]
			if len(f.Args) > 0 && r.Intn(2) == 0 {
				f.Args[0].Dirs = append(f.Args[0].Dirs, du)
			} else {
				f.Dirs = append(f.Dirs, du)
			}
		case len(it.Vals) > 0 && r.Intn(2) == 0:
			it.Vals[0].Dirs = append(it.Vals[0].Dirs, du)
		case len(it.Inputs) > 0 && r.Intn(2) == 0:
			it.Inputs[0].Dirs = append(it.Inputs[0].Dirs, du)
		default:
			it.Dirs = append(it.Dirs, du)
		}
		return true
	}},
	{"undefined-union-member", func(r *rand.Rand, items []scItem) bool {
		it := scPick(r, items, func(it *scItem) bool { return it.K == kUnion })
		if it == nil {
			return false
		}
		it.Members = append(it.Members, 900+r.Intn(50))
		return true
	}},
	{"undefined-interface", func(r *rand.Rand, items []scItem) bool {
		it := scPick(r, items, func(it *scItem) bool { return it.K == kObject })
		if it == nil {
			return false
		}
		it.Ifaces = append(it.Ifaces, 900+r.Intn(50))
		return true
	}},
	{"duplicate-field", func(r *rand.Rand, items []scItem) bool {
		it := scPick(r, items, scHasFields)
		if it == nil {
			return false
		}
		f := it.Fields[r.Intn(len(it.Fields))]
		it.Fields = append(it.Fields, f)
		return true
	}},
	{"duplicate-arg", func(r *rand.Rand, items []scItem) bool {
		it := scPick(r, items, func(it *scItem) bool {
			for _, f := range it.Fields {
				if len(f.Args) > 0 {
					return true
				}
			}
			return it.K == kDirective && len(it.Inputs) > 0
		})
		if it == nil {
			return false
		}
		if it.K == kDirective {
			it.Inputs = append(it.Inputs, it.Inputs[0])
			return true
		}
		for i := range it.Fields {
			if len(it.Fields[i].Args) > 0 {
				it.Fields[i].Args = append(it.Fields[i].Args, it.Fields[i].Args[0])
				return true
			}
		}
		return false
	}},
	{"duplicate-enum-value", func(r *rand.Rand, items []scItem) bool {
		it := scPick(r, items, func(it *scItem) bool { return it.K == kEnum && len(it.Vals) > 0 })
		if it == nil {
			return false
		}
		it.Vals = append(it.Vals, it.Vals[r.Intn(len(it.Vals))])
		return true
	}},
	{"duplicate-input-field", func(r *rand.Rand, items []scItem) bool {
		it := scPick(r, items, func(it *scItem) bool { return it.K == kInput && len(it.Inputs) > 0 })
		if it == nil {
			return false
		}
		it.Inputs = append(it.Inputs, it.Inputs[r.Intn(len(it.Inputs))])
		return true
	}},
	{"reserved-type-name", func(r *rand.Rand, items []scItem) bool {
		it := scPick(r, items, func(it *scItem) bool { return it.N >= 20 && it.K != kSchema && it.K != kDirective })
		if it == nil {
			return false
		}
		old, nw := it.N, 1000+it.N
		scRenameType(items, old, nw)
		return true
	}},
	{"reserved-field-name", func(r *rand.Rand, items []scItem) bool {
		it := scPick(r, items, func(it *scItem) bool { return scHasFields(it) && len(it.Ifaces) == 0 && it.K == kObject })
		if it == nil {
			return false
		}
		it.Fields[len(it.Fields)-1].N += 1000
		return true
	}},
	{"reserved-arg-name", func(r *rand.Rand, items []scItem) bool {
		it := scPick(r, items, func(it *scItem) bool { return it.K == kDirective && len(it.Inputs) > 0 })
		if it == nil {
			it = scPick(r, items, scHasFields)
			if it == nil {
				return false
			}
			f := &it.Fields[len(it.Fields)-1]
			f.Args = append(f.Args, scArg{N: 1000 + 500 + r.Intn(50), T: scT{N: 0}})
			return true
		}
		// uses of the directive keep the old name and become undeclared as well; use a fresh argument instead
		it.Inputs = append(it.Inputs, scArg{N: 1000 + 500 + r.Intn(50), T: scT{N: 0}})
		return true
	}},
	{"reserved-enum-value", func(r *rand.Rand, items []scItem) bool {
		it := scPick(r, items, func(it *scItem) bool { return it.K == kEnum })
		if it == nil {
			return false
		}
		it.Vals = append(it.Vals, scEV{N: 1000 + 500 + r.Intn(50)})
		return true
	}},
	{"reserved-input-field", func(r *rand.Rand, items []scItem) bool {
		it := scPick(r, items, func(it *scItem) bool { return it.K == kInput })
		if it == nil {
			return false
		}
		it.Inputs = append(it.Inputs, scArg{N: 1000 + 500 + r.Intn(50), T: scT{N: 0}})
		return true
	}},
	{"enum-value-keyword", func(r *rand.Rand, items []scItem) bool {
		it := scPick(r, items, func(it *scItem) bool { return it.K == kEnum })
		if it == nil {
			return false
		}
		it.Vals = append(it.Vals, scEV{N: 1 + r.Intn(3)})
		return true
	}},
	{"input-type-as-field-type", func(r *rand.Rand, items []scItem) bool {
		ins := scKindIDs(items, kInput)
		it := scPick(r, items, func(it *scItem) bool { return scHasFields(it) && len(it.Ifaces) == 0 && it.K == kObject })
		if it == nil || len(ins) == 0 {
			return false
		}
		it.Fields = append(it.Fields, scField{N: 600 + r.Intn(50), T: scDeepWrap(r, scT{N: ins[r.Intn(len(ins))]})})
		return true
	}},
	{"output-type-as-arg-type", func(r *rand.Rand, items []scItem) bool {
		outs := append(scKindIDs(items, kObject), scKindIDs(items, kInterface)...)
		outs = append(outs, scKindIDs(items, kUnion)...)
		it := scPick(r, items, func(it *scItem) bool { return scHasFields(it) && it.K == kObject })
		if it == nil || len(outs) == 0 {
			return false
		}
		f := &it.Fields[len(it.Fields)-1]
		f.Args = append(f.Args, scArg{N: 600 + r.Intn(50), T: scDeepWrap(r, scT{N: outs[r.Intn(len(outs))]})})
		return true
	}},
	{"output-type-as-input-field", func(r *rand.Rand, items []scItem) bool {
		outs := append(scKindIDs(items, kObject), scKindIDs(items, kUnion)...)
		it := scPick(r, items, func(it *scItem) bool { return it.K == kInput })
		if it == nil || len(outs) == 0 {
			return false
		}
		it.Inputs = append(it.Inputs, scArg{N: 600 + r.Intn(50), T: scDeepWrap(r, scT{N: outs[r.Intn(len(outs))]})})
		return true
	}},
	{"output-type-as-directive-arg", func(r *rand.Rand, items []scItem) bool {
		outs := append(scKindIDs(items, kObject), scKindIDs(items, kInterface)...)
		it := scPick(r, items, func(it *scItem) bool { return it.K == kDirective })
		if it == nil || len(outs) == 0 {
			return false
		}
		it.Inputs = append(it.Inputs, scArg{N: 600 + r.Intn(50), T: scDeepWrap(r, scT{N: outs[r.Intn(len(outs))]})})
		return true
	}},
	{"missing-interface-field", func(r *rand.Rand, items []scItem) bool {
		it := scPick(r, items, func(it *scItem) bool { return it.K == kObject && len(it.Ifaces) > 0 && len(it.Fields) > 1 })
		if it == nil {
			return false
		}
		it.Fields = it.Fields[1:] // interface fields come first
		return true
	}},
	{"incompatible-interface-field", func(r *rand.Rand, items []scItem) bool {
		it := scPick(r, items, func(it *scItem) bool { return it.K == kObject && len(it.Ifaces) > 0 })
		if it == nil {
			return false
		}
		f := &it.Fields[0]
		switch r.Intn(3) {
		case 0:
			o := f.T
			f.T = scT{K: 1, Of: &o}
		case 1:
			if f.T.K == 2 {
				f.T = *f.T.Of
				if f.T.K == 2 {
					return false
				}
				// still a violation only if the interface said non-null; else it is legal covariance undone
				return false
			}
			b := f.T
			for b.Of != nil {
				b = *b.Of
			}
			if b.N == 2 {
				return false
			}
			f.T = scT{N: 2}
		case 2:
			f.Args = append(f.Args, scArg{N: 600 + r.Intn(50), T: scT{K: 2, Of: &scT{N: 0}}})
		}
		return true
	}},
	{"interface-field-supertype", func(r *rand.Rand, items []scItem) bool {
		// the object returns a union that contains, or an interface implemented by, what the interface promises
		it := scPick(r, items, func(it *scItem) bool { return it.K == kObject && len(it.Ifaces) > 0 })
		if it == nil {
			return false
		}
		f := &it.Fields[0]
		b := &f.T
		for b.Of != nil {
			b = b.Of
		}
		for _, o := range items {
			if o.K == kUnion {
				for _, m := range o.Members {
					if m == b.N {
						b.N = o.N
						return true
					}
				}
			}
			if o.K == kObject && o.N == b.N && len(o.Ifaces) > 0 {
				b.N = o.Ifaces[0]
				return true
			}
		}
		return false
	}},
	{"interface-arg-non-null-variant", func(r *rand.Rand, items []scItem) bool {
		// the object's argument differs from the interface's only by a non-null wrapper
		it := scPick(r, items, func(it *scItem) bool {
			return it.K == kObject && len(it.Ifaces) > 0 && len(it.Fields) > 0 && len(it.Fields[0].Args) > 0
		})
		if it == nil {
			return false
		}
		a := &it.Fields[0].Args[0]
		t := &a.T
		for t.K == 1 && r.Intn(2) == 0 { // go under some lists
			t = t.Of
		}
		if t.K == 2 {
			*t = *t.Of
			return true
		}
		o := *t
		*t = scT{K: 2, Of: &o}
		return true
	}},
	{"interface-arg-tightened", func(r *rand.Rand, items []scItem) bool {
		// an argument the object shares with its interface, non-null where the interface allows null
		// (at the top or inside a list): argument types must be equal, a "compatible" subtype is refused
		type cand struct{ t *scT }
		var cs []cand
		for oi := range items {
			o := &items[oi]
			if o.K != kObject || o.Ext {
				continue
			}
			for _, in := range o.Ifaces {
				for ii := range items {
					ifc := &items[ii]
					if ifc.K != kInterface || ifc.N != in || ifc.Ext {
						continue
					}
					for _, ff := range ifc.Fields {
						for fi := range o.Fields {
							if o.Fields[fi].N != ff.N {
								continue
							}
							for _, ia := range ff.Args {
								for ai := range o.Fields[fi].Args {
									if o.Fields[fi].Args[ai].N == ia.N {
										t := &o.Fields[fi].Args[ai].T
										for {
											if t.K == 2 { // already non-null at this level: look inside a list below it
												t = t.Of
												if t.K != 1 {
													break
												}
												t = t.Of
												continue
											}
											cs = append(cs, cand{t})
											if t.K != 1 {
												break
											}
											t = t.Of
										}
									}
								}
							}
						}
					}
				}
			}
		}
		if len(cs) == 0 {
			return false
		}
		t := cs[r.Intn(len(cs))].t
		o := *t
		*t = scT{K: 2, Of: &o}
		return true
	}},
	{"missing-interface-arg", func(r *rand.Rand, items []scItem) bool {
		it := scPick(r, items, func(it *scItem) bool { return it.K == kObject && len(it.Ifaces) > 0 && len(it.Fields[0].Args) > 0 })
		if it == nil {
			return false
		}
		it.Fields[0].Args = it.Fields[0].Args[1:]
		return true
	}},
	{"union-of-non-object", func(r *rand.Rand, items []scItem) bool {
		non := append(scKindIDs(items, kEnum), scKindIDs(items, kInterface)...)
		non = append(non, scKindIDs(items, kInput)...)
		non = append(non, 0, 2)
		it := scPick(r, items, func(it *scItem) bool { return it.K == kUnion })
		if it == nil {
			return false
		}
		it.Members = append(it.Members, non[r.Intn(len(non))])
		return true
	}},
	{"empty-definition", func(r *rand.Rand, items []scItem) bool {
		it := scPick(r, items, func(it *scItem) bool {
			return (it.K == kObject && len(it.Ifaces) == 0) || it.K == kInterface || it.K == kEnum || it.K == kInput || it.K == kUnion
		})
		if it == nil {
			return false
		}
		it.Fields, it.Vals, it.Inputs, it.Members = nil, nil, nil, nil
		if it.K == kUnion { // "union U =" can only be written at the end of a document
			u := *it
			for i := range items {
				if &items[i] == it {
					copy(items[i:], items[i+1:])
					items[len(items)-1] = u
					break
				}
			}
		}
		return true
	}},
	{"directive-wrong-location", func(r *rand.Rand, items []scItem) bool {
		d := scPick(r, items, func(it *scItem) bool { return it.K == kDirective })
		if d == nil {
			return false
		}
		du := scDU{N: d.N}
		for _, a := range d.Inputs {
			if a.T.K == 2 && a.Def == nil {
				return false
			}
		}
		has := func(l int) bool {
			for _, x := range d.Locs {
				if x == l {
					return true
				}
			}
			return false
		}
		it := scPick(r, items, func(it *scItem) bool { return it.K != kDirective && it.K != kSchema })
		if it == nil {
			return false
		}
		switch {
		case len(it.Fields) > 0 && r.Intn(2) == 0:
			f := &it.Fields[len(it.Fields)-1]
			if len(f.Args) > 0 && !has(11) && len(it.Ifaces) == 0 {
				f.Args[0].Dirs = append(f.Args[0].Dirs, du)
				return true
			}
			if has(10) {
				return false
			}
			f.Dirs = append(f.Dirs, du)
		case len(it.Vals) > 0 && r.Intn(2) == 0:
			if has(15) {
				return false
			}
			it.Vals[0].Dirs = append(it.Vals[0].Dirs, du)
		case it.K == kInput && r.Intn(2) == 0:
			if has(17) {
				return false
			}
			it.Inputs[0].Dirs = append(it.Inputs[0].Dirs, du)
		default:
			loc := map[int]int{kScalar: 8, kObject: 9, kInterface: 12, kUnion: 13, kEnum: 14, kInput: 16}[it.K]
			if has(loc) {
				return false
			}
			it.Dirs = append(it.Dirs, du)
		}
		return true
	}},
	{"directive-undeclared-arg", func(r *rand.Rand, items []scItem) bool {
		return scMutUse(r, items, func(du *scDU) bool {
			du.Args = append(du.Args, scAV{N: 700 + r.Intn(50), V: scV{K: "i", I: 1}})
			return true
		})
	}},
	{"directive-uncoercible-arg", func(r *rand.Rand, items []scItem) bool {
		return scMutUse(r, items, func(du *scDU) bool {
			if len(du.Args) == 0 {
				return false
			}
			du.Args[0].V = scV{K: "l", L: []scV{{K: "l", L: []scV{{K: "b", I: 1}, {K: "s", I: 3}}}}}
			return true
		})
	}},
	{"directive-missing-required-arg", func(r *rand.Rand, items []scItem) bool {
		d := scPick(r, items, func(it *scItem) bool { return it.K == kDirective && len(it.Locs) > 0 })
		if d == nil {
			return false
		}
		d.Inputs = append(d.Inputs, scArg{N: 700 + r.Intn(50), T: scT{K: 2, Of: &scT{N: 0}}})
		// and make sure it is used somewhere
		for i := range items {
			it := &items[i]
			loc := map[int]int{kScalar: 8, kObject: 9, kInterface: 12, kUnion: 13, kEnum: 14, kInput: 16}[it.K]
			for _, l := range d.Locs {
				if l == loc && it.K != kDirective && it.K != kSchema {
					for _, u := range it.Dirs {
						if u.N == d.N {
							return true
						}
					}
					du := scDU{N: d.N}
					for _, a := range d.Inputs[:len(d.Inputs)-1] {
						if a.T.K == 2 && a.Def == nil {
							return false
						}
					}
					it.Dirs = append(it.Dirs, du)
					return true
				}
			}
		}
		return false
	}},
	{"directive-null-for-required-arg", func(r *rand.Rand, items []scItem) bool {
		// a non-null argument without default, and a use that writes null for it
		d := scPick(r, items, func(it *scItem) bool { return it.K == kDirective && len(it.Locs) > 0 })
		if d == nil {
			return false
		}
		for _, a := range d.Inputs {
			if a.T.K == 2 && a.Def == nil {
				return false
			}
		}
		n := 700 + r.Intn(50)
		for i := range items {
			it := &items[i]
			loc := map[int]int{kScalar: 8, kObject: 9, kInterface: 12, kUnion: 13, kEnum: 14, kInput: 16}[it.K]
			for _, l := range d.Locs {
				if l == loc && it.K != kDirective && it.K != kSchema {
					for _, u := range it.Dirs {
						if u.N == d.N {
							return false
						}
					}
					d.Inputs = append(d.Inputs, scArg{N: n, T: scT{K: 2, Of: &scT{N: 0}}})
					// every other use gives the new argument a value
					for j := range items {
						for k := range items[j].Dirs {
							if items[j].Dirs[k].N == d.N {
								items[j].Dirs[k].Args = append(items[j].Dirs[k].Args, scAV{N: n, V: scV{K: "i", I: 1}})
							}
						}
					}
					it.Dirs = append(it.Dirs, scDU{N: d.N, Args: []scAV{{N: n, V: scV{K: "null"}}}})
					return true
				}
			}
		}
		return false
	}},
	{"directive-bad-default", func(r *rand.Rand, items []scItem) bool {
		d := scPick(r, items, func(it *scItem) bool { return it.K == kDirective })
		if d == nil {
			return false
		}
		d.Inputs = append(d.Inputs, scArg{N: 700 + r.Intn(50), T: scDeepWrap(r, scT{N: 0}), Def: &scV{K: "y", I: 77}})
		return true
	}},
	{"directive-bad-location-name", func(r *rand.Rand, items []scItem) bool {
		d := scPick(r, items, func(it *scItem) bool { return it.K == kDirective })
		if d == nil {
			return false
		}
		d.Locs = append(d.Locs, 99)
		return true
	}},
	{"directive-cycle", func(r *rand.Rand, items []scItem) bool {
		var ds []*scItem
		for i := range items {
			if items[i].K == kDirective {
				ds = append(ds, &items[i])
			}
		}
		if len(ds) == 0 {
			return false
		}
		n := 1 + r.Intn(len(ds))
		if n > 3 {
			n = 3
		}
		perm := r.Perm(len(ds))[:n]
		for i, p := range perm {
			d := ds[p]
			nxt := ds[perm[(i+1)%n]]
			for _, a := range nxt.Inputs {
				if a.T.K == 2 && a.Def == nil {
					return false
				}
			}
			has := false
			for _, l := range nxt.Locs {
				if l == 11 {
					has = true
				}
			}
			if !has {
				nxt.Locs = append(nxt.Locs, 11)
			}
			d.Inputs = append(d.Inputs, scArg{N: 700 + r.Intn(50) + 60*i, T: scT{N: 0}, Dirs: []scDU{{N: nxt.N}}})
		}
		return true
	}},
	{"schema-unknown-operation", func(r *rand.Rand, items []scItem) bool {
		objs := scKindIDs(items, kObject)
		it := scPick(r, items, func(it *scItem) bool { return it.K == kSchema })
		if it == nil || len(objs) == 0 {
			return false
		}
		it.Fields = append(it.Fields, scField{N: 600 + r.Intn(50), T: scT{N: objs[0]}})
		return true
	}},
}

// mutations that add an item
var scAddMuts = []struct {
	name string
	f    func(r *rand.Rand, items []scItem) []scItem
}{
	{"duplicate-type", func(r *rand.Rand, items []scItem) []scItem {
		it := scPick(r, items, func(it *scItem) bool { return it.K != kSchema && !it.Ext })
		if it == nil {
			return nil
		}
		dup := scItemFromSx(scItemSx(*it))
		// a scalar declared twice is tolerated by design (the second declaration is ignored)
		if (r.Intn(3) == 0 || it.K == kScalar) && it.K != kDirective { // same name, another kind
			dup = scItem{K: kScalar, N: it.N}
			if it.K == kScalar {
				dup = scItem{K: kEnum, N: it.N, Vals: []scEV{{N: 640}}}
			}
		}
		p := r.Intn(len(items) + 1)
		return append(items[:p:p], append([]scItem{dup}, items[p:]...)...)
	}},
	{"scalar-then-same-name", func(r *rand.Rand, items []scItem) []scItem {
		// a name held by a scalar and defined again as another kind LATER in the document
		it := scPick(r, items, func(it *scItem) bool { return it.K != kSchema && it.K != kDirective && it.K != kScalar && !it.Ext })
		if it == nil {
			return nil
		}
		idx := 0
		for i := range items {
			if &items[i] == it {
				idx = i
			}
		}
		p := r.Intn(idx + 1)
		return append(items[:p:p], append([]scItem{{K: kScalar, N: it.N}}, items[p:]...)...)
	}},
	{"same-name-then-scalar", func(r *rand.Rand, items []scItem) []scItem {
		it := scPick(r, items, func(it *scItem) bool { return it.K != kSchema && it.K != kDirective && it.K != kScalar && !it.Ext })
		if it == nil {
			return nil
		}
		idx := 0
		for i := range items {
			if &items[i] == it {
				idx = i
			}
		}
		p := idx + 1 + r.Intn(len(items)-idx)
		return append(items[:p:p], append([]scItem{{K: kScalar, N: it.N}}, items[p:]...)...)
	}},
	{"extend-missing-base", func(r *rand.Rand, items []scItem) []scItem {
		x := scItem{Ext: true, K: kObject, N: 900 + r.Intn(50), Fields: []scField{{N: 650, T: scT{N: 0}}}}
		p := r.Intn(len(items) + 1)
		return append(items[:p:p], append([]scItem{x}, items[p:]...)...)
	}},
	{"extend-core-scalar-directive-wrong-location", func(r *rand.Rand, items []scItem) []scItem {
		// a built-in scalar extended with a use of a directive that may not stand on a scalar
		d := scPick(r, items, func(it *scItem) bool {
			if it.K != kDirective {
				return false
			}
			for _, l := range it.Locs {
				if l == 8 {
					return false
				}
			}
			for _, a := range it.Inputs {
				if a.T.K == 2 && a.Def == nil {
					return false
				}
			}
			return true
		})
		if d == nil {
			return nil
		}
		x := scItem{Ext: true, K: kScalar, N: r.Intn(5), Dirs: []scDU{{N: d.N}}}
		return append(items[:len(items):len(items)], x)
	}},
	{"extend-other-kind", func(r *rand.Rand, items []scItem) []scItem {
		it := scPick(r, items, func(it *scItem) bool { return it.K == kEnum || it.K == kInput || it.K == kUnion })
		if it == nil {
			return nil
		}
		x := scItem{Ext: true, K: kObject, N: it.N, Fields: []scField{{N: 650, T: scT{N: 0}}}}
		return append(items[:len(items):len(items)], x)
	}},
	{"extend-duplicate-member", func(r *rand.Rand, items []scItem) []scItem {
		it := scPick(r, items, func(it *scItem) bool {
			return (it.K == kObject || it.K == kEnum || it.K == kUnion || it.K == kInput) && !it.Ext
		})
		if it == nil {
			return nil
		}
		x := scItem{Ext: true, K: it.K, N: it.N}
		switch it.K {
		case kObject:
			x.Fields = []scField{it.Fields[0]}
		case kEnum:
			x.Vals = []scEV{it.Vals[0]}
		case kUnion:
			x.Members = []int{it.Members[0]}
		case kInput:
			x.Inputs = []scArg{it.Inputs[0]}
		}
		p := r.Intn(len(items) + 1)
		return append(items[:p:p], append([]scItem{x}, items[p:]...)...)
	}},
}

func scMutUse(r *rand.Rand, items []scItem, f func(du *scDU) bool) bool {
	var uses []*scDU
	collect := func(l []scDU) {
		for i := range l {
			if l[i].N >= 10 && l[i].N < 900 {
				uses = append(uses, &l[i])
			}
		}
	}
	for i := range items {
		it := &items[i]
		collect(it.Dirs)
		for j := range it.Fields {
			collect(it.Fields[j].Dirs)
			for k := range it.Fields[j].Args {
				collect(it.Fields[j].Args[k].Dirs)
			}
		}
		for j := range it.Vals {
			collect(it.Vals[j].Dirs)
		}
		for j := range it.Inputs {
			collect(it.Inputs[j].Dirs)
		}
	}
	if len(uses) == 0 {
		return false
	}
	return f(uses[r.Intn(len(uses))])
}

func scRenameT(t *scT, old, nw int) {
	for t.Of != nil {
		t = t.Of
	}
	if t.N == old {
		t.N = nw
	}
}

func scRenameType(items []scItem, old, nw int) {
	for i := range items {
		it := &items[i]
		if it.K != kDirective && it.K != kSchema && it.N == old {
			it.N = nw
		}
		for j := range it.Ifaces {
			if it.Ifaces[j] == old {
				it.Ifaces[j] = nw
			}
		}
		for j := range it.Members {
			if it.Members[j] == old {
				it.Members[j] = nw
			}
		}
		for j := range it.Fields {
			scRenameT(&it.Fields[j].T, old, nw)
			for k := range it.Fields[j].Args {
				scRenameT(&it.Fields[j].Args[k].T, old, nw)
			}
		}
		for j := range it.Inputs {
			scRenameT(&it.Inputs[j].T, old, nw)
		}
	}
}

// deep copy through the s-expression form
func scCopy(items []scItem) []scItem {
	out := make([]scItem, 0, len(items)+2)
	for _, it := range items {
		out = append(out, scItemFromSx(scItemSx(it)))
	}
	return out
}

// ---- arrangements ----

// scSplit moves some members of definitions into extend blocks placed anywhere after... anywhere.
func scSplit(r *rand.Rand, items []scItem) []scItem {
	var out []scItem
	var extra []scItem
	for _, it := range items {
		if it.K == kDirective || it.K == kSchema || r.Intn(2) == 0 {
			out = append(out, it)
			continue
		}
		base := it
		x := scItem{Ext: true, K: it.K, N: it.N}
		moved := false
		cutDirs := r.Intn(len(it.Dirs) + 1)
		base.Dirs, x.Dirs = it.Dirs[:cutDirs:cutDirs], it.Dirs[cutDirs:]
		switch it.K {
		case kObject, kInterface:
			c := 1 + r.Intn(len(it.Fields))
			base.Fields, x.Fields = it.Fields[:c:c], it.Fields[c:]
			if it.K == kObject && len(it.Ifaces) > 0 && r.Intn(2) == 0 {
				ci := r.Intn(len(it.Ifaces) + 1)
				base.Ifaces, x.Ifaces = it.Ifaces[:ci:ci], it.Ifaces[ci:]
			}
		case kUnion:
			c := 1 + r.Intn(len(it.Members))
			base.Members, x.Members = it.Members[:c:c], it.Members[c:]
			if len(x.Members) == 0 { // "extend union U @d =" can only end a document
				base.Dirs, x.Dirs = it.Dirs, nil
			}
		case kEnum:
			c := 1 + r.Intn(len(it.Vals))
			base.Vals, x.Vals = it.Vals[:c:c], it.Vals[c:]
		case kInput:
			c := 1 + r.Intn(len(it.Inputs))
			base.Inputs, x.Inputs = it.Inputs[:c:c], it.Inputs[c:]
		}
		moved = len(x.Dirs)+len(x.Fields)+len(x.Ifaces)+len(x.Members)+len(x.Vals)+len(x.Inputs) > 0
		out = append(out, base)
		if moved {
			extra = append(extra, x)
		}
	}
	// extensions anywhere in the document
	for _, x := range extra {
		p := r.Intn(len(out) + 1)
		out = append(out[:p:p], append([]scItem{x}, out[p:]...)...)
	}
	return out
}

func scShuffle(r *rand.Rand, items []scItem) []scItem {
	out := append([]scItem{}, items...)
	r.Shuffle(len(out), func(i, j int) { out[i], out[j] = out[j], out[i] })
	return out
}

func scDocSx(mode sx.S, items []scItem) sx.S {
	out := []sx.S{"doc", mode}
	for _, it := range items {
		out = append(out, scItemSx(it))
	}
	return out
}

// scPartition cuts a list into 1..3 successive documents.
func scPartition(r *rand.Rand, items []scItem) [][]scItem {
	n := 1 + r.Intn(3)
	cuts := []int{0}
	for i := 1; i < n; i++ {
		cuts = append(cuts, r.Intn(len(items)+1))
	}
	cuts = append(cuts, len(items))
	for i := range cuts {
		for j := i + 1; j < len(cuts); j++ {
			if cuts[j] < cuts[i] {
				cuts[i], cuts[j] = cuts[j], cuts[i]
			}
		}
	}
	var out [][]scItem
	for i := 0; i+1 < len(cuts); i++ {
		if cuts[i] < cuts[i+1] {
			out = append(out, items[cuts[i]:cuts[i+1]])
		}
	}
	return out
}

func scHuman(docs [][]scItem) string {
	s := ""
	for i, d := range docs {
		s += fmt.Sprintf("# load %d\n%s", i+1, scDocText(d))
	}
	return s
}

// scMutate applies one named violation to a copy; nil when it does not apply.
func scMutate(r *rand.Rand, items []scItem, idx int) ([]scItem, string) {
	c := scCopy(items)
	if idx < len(scMuts) {
		if scMuts[idx].f(r, c) {
			return c, scMuts[idx].name
		}
		return nil, ""
	}
	m := scAddMuts[idx-len(scMuts)]
	if out := m.f(r, c); out != nil {
		return out, m.name
	}
	return nil, ""
}

func scNumMuts() int { return len(scMuts) + len(scAddMuts) }

func scCase(id string, docs []sx.S, tags []string, human string) Case {
	return Case{ID: id, Input: append([]sx.S{"docs"}, docs...), Tags: tags, Human: human}
}

func c13Gen(r *rand.Rand, tier string) []Case {
	n, per := 100, 8
	if tier == "thorough" {
		n, per = 300, scNumMuts()
	}
	var out []Case
	for i := 0; i < n; i++ {
		w := scWellFormed(r, 1+r.Intn(3))
		arr := w
		tags := []string{"wf"}
		switch r.Intn(3) {
		case 1:
			arr = scShuffle(r, w)
			tags = append(tags, "shuffled")
		case 2:
			arr = scShuffle(r, scSplit(r, w))
			tags = append(tags, "split")
		}
		if len(w) >= 4 {
			tags = append(tags, "nontrivial")
		}
		wf := scCase(fmt.Sprintf("w%d", i), []sx.S{scDocSx("ok", arr)}, tags, scDocText(arr))
		wf.Input = append([]sx.S{"wfdocs"}, sx.List(wf.Input)[1:]...) // built by construction to obey every rule
		out = append(out, wf)
		order := r.Perm(scNumMuts())
		made := 0
		for _, m := range order {
			if made >= per {
				break
			}
			mut, name := scMutate(r, w, m)
			if mut == nil {
				continue
			}
			made++
			if r.Intn(3) == 0 && name != "empty-definition" {
				mut = scShuffle(r, mut)
			}
			out = append(out, scCase(fmt.Sprintf("w%d-%s", i, name), []sx.S{scDocSx("ok", mut)},
				[]string{"mut", "mut:" + name, "nontrivial"}, scDocText(mut)))
		}
	}
	return out
}

func c16Gen(r *rand.Rand, tier string) []Case {
	n, k := 80, 5
	if tier == "thorough" {
		n, k = 400, 12
	}
	var out []Case
	for i := 0; i < n; i++ {
		w := scWellFormed(r, 1+r.Intn(3))
		if i%3 == 1 {
			// a scalar or enum whose name differs from that of another one by case only
			if it := scPick(r, w, func(it *scItem) bool {
				return !it.Ext && (it.K == kScalar || it.K == kEnum) && it.N >= 20 && it.N < 100
			}); it != nil {
				twin := *it
				twin.N = 700 + it.N
				w = append(append([]scItem{}, w...), twin)
			}
		}
		out = append(out, scCase(fmt.Sprintf("s%d-plain", i), []sx.S{scDocSx("ok", w)}, []string{"plain"}, scDocText(w)))
		for j := 0; j < k; j++ {
			var docs [][]scItem
			tags := []string{}
			var mode sx.S = "ok"
			switch r.Intn(5) {
			case 4: // one load whose definitions lie in several files (ParseFS: read in any order)
				docs = [][]scItem{scShuffle(r, w)}
				if r.Intn(2) == 0 {
					docs = [][]scItem{scShuffle(r, scSplit(r, w))}
				}
				mode = sx.L("files", sx.A(r.Intn(100000)))
				tags = append(tags, "permuted", "several-files")
			case 0:
				docs = [][]scItem{scShuffle(r, w)}
				tags = append(tags, "permuted")
			case 1:
				docs = [][]scItem{scShuffle(r, scSplit(r, w))}
				tags = append(tags, "permuted", "extend-split")
			case 2:
				docs = scPartition(r, w)
				tags = append(tags, "partitioned")
			default:
				// split, keep bases in dependency order with extensions anywhere after their base's load
				docs = scPartition(r, scSplit(r, w))
				tags = append(tags, "partitioned", "extend-split")
			}
			var ds []sx.S
			for _, d := range docs {
				m := mode
				if m == sx.S("ok") && len(docs) > 1 && r.Intn(3) == 0 {
					// a load of a partition handed to AddTypes as Go values, where it can be built that way
					api := true
					for _, it := range d {
						if !scAPIExpressible(it) {
							api = false
						}
					}
					if api {
						m = "api"
						tags = append(tags, "load-through-AddTypes")
					}
				}
				ds = append(ds, scDocSx(m, d))
			}
			out = append(out, scCase(fmt.Sprintf("s%d-a%d", i, j), ds, append(tags, "nontrivial"), scHuman(docs)))
		}
		for _, t := range scTargeted(r, w) {
			var ds []sx.S
			for _, d := range t.docs {
				ds = append(ds, scDocSx("ok", d))
			}
			out = append(out, scCase(fmt.Sprintf("s%d-%s", i, t.tag), ds, []string{"nontrivial", "targeted", t.tag}, scHuman(t.docs)))
		}
		// a set with one violation must be refused however it is arranged: in particular when the
		// violation only comes about through a later load (an extension of an interface, a union, ...)
		for j := 0; j < 2; j++ {
			mut, name := scMutate(r, w, r.Intn(scNumMuts()))
			if mut == nil || name == "empty-definition" {
				continue
			}
			docs := scPartition(r, scSplit(r, mut))
			var ds []sx.S
			for _, d := range docs {
				ds = append(ds, scDocSx("ok", d))
			}
			out = append(out, scCase(fmt.Sprintf("s%d-m%d", i, j), ds, []string{"nontrivial", "violation-arranged", "mut:" + name}, scHuman(docs)))
		}
	}
	return out
}

func c14Gen(r *rand.Rand, tier string) []Case {
	n := 120
	if tier == "thorough" {
		n = 1500
	}
	var out []Case
	for i := 0; i < n; i++ {
		w := scWellFormed(r, 1+r.Intn(3))
		cut := 1 + r.Intn(len(w))
		a, b := w[:cut:cut], w[cut:]
		var ds []sx.S
		var docs [][]scItem
		tags := []string{}
		push := func(mode sx.S, d []scItem, tag string) {
			ds = append(ds, scDocSx(mode, d))
			docs = append(docs, d)
			tags = append(tags, tag)
		}
		// the same definitions as Go values through Root.AddTypes, where they can be built that way
		apiMode := func(items []scItem, wantFail bool) sx.S {
			for _, it := range items {
				if !scAPIExpressible(it) {
					return "ok"
				}
			}
			if r.Intn(2) == 0 {
				return "api"
			}
			return "ok"
		}
		apiTag := func(m sx.S, tag string) string {
			if m == sx.S("api") {
				return tag + "-through-AddTypes"
			}
			return tag
		}
		push("ok", a, "load")
		for j := 1 + r.Intn(3); j > 0; j-- {
			switch r.Intn(9) {
			case 8: // new definitions, then one that cannot be added or does not validate
				fresh := scItem{K: kObject, N: 884, Fields: []scField{{N: 665, T: scT{N: 0}}}}
				var bad []scItem
				switch r.Intn(4) {
				case 0:
					bad = []scItem{fresh, {K: kEnum, N: 885}}
				case 1:
					bad = []scItem{fresh, fresh}
				case 2:
					bad = []scItem{fresh, {K: kUnion, N: 886, Members: []int{0}}}
				default:
					if it := scPick(r, a, func(it *scItem) bool { return !it.Ext && it.K != kDirective && it.K != kSchema && it.K != kScalar }); it != nil {
						bad = []scItem{fresh, {K: kObject, N: it.N, Fields: []scField{{N: 666, T: scT{N: 0}}}}}
					}
				}
				if bad != nil {
					m := apiMode(bad, true)
					push(m, bad, apiTag(m, "fail:after-new-definitions"))
				}
			case 0: // a violation after valid content
				for try := 0; try < 10; try++ {
					if mut, name := scMutate(r, b, r.Intn(scNumMuts())); mut != nil {
						push("ok", mut, "fail:"+name)
						break
					}
				}
			case 1: // valid content, then the text breaks off
				push("syntax", b, "fail:syntax")
			case 2:
				if len(b) > 0 {
					push(sx.L("fault", sx.A(r.Intn(4000))), b, "fail:reader")
				}
			case 3: // extends an accepted type, then fails
				if it := scPick(r, a, func(it *scItem) bool { return it.K == kObject || it.K == kInterface }); it != nil {
					f := scField{N: 660 + r.Intn(20), T: scT{N: 0}}
					x := scItem{Ext: true, K: it.K, N: it.N, Fields: []scField{f}}
					bad := []scItem{x, x}
					if r.Intn(3) == 0 { // one extension: a new member, then one that exists
						x.Fields = []scField{f, it.Fields[0]}
						if r.Intn(2) == 0 {
							x.Fields = []scField{it.Fields[0]}
							x.Dirs = []scDU{{N: 2}}
						}
						bad = []scItem{x}
					} else if r.Intn(2) == 0 {
						bad = []scItem{x, {K: kObject, N: 880, Fields: []scField{{N: 661, T: scT{N: 940}}}}}
					}
					push("ok", bad, "fail:after-extend")
				}
			case 4: // a schema block, then a failure
				if it := scPick(r, a, func(it *scItem) bool { return it.K == kObject }); it != nil {
					s := scItem{K: kSchema, Fields: []scField{{N: 1, T: scT{N: it.N}}}}
					bad := []scItem{s, {K: kObject, N: 881, Fields: []scField{{N: 662, T: scT{N: 941}}}}}
					m := apiMode(bad, true)
					push(m, bad, apiTag(m, "fail:after-schema-block"))
				}
			case 6: // valid extensions of accepted types, then an extension with the wrong keyword
				var bad []scItem
				for _, it := range a {
					if it.Ext || it.K == kDirective || it.K == kSchema || it.K == kScalar {
						continue
					}
					x := scItem{Ext: true, K: it.K, N: it.N}
					switch it.K {
					case kObject, kInterface:
						if len(it.Ifaces) > 0 || it.K == kInterface {
							continue
						}
						x.Fields = []scField{{N: 680 + len(bad), T: scT{N: 0}}}
					case kEnum:
						x.Vals = []scEV{{N: 680 + len(bad)}}
					case kInput:
						x.Inputs = []scArg{{N: 680 + len(bad), T: scT{N: 0}}}
					case kUnion:
						continue
					}
					bad = append(bad, x)
				}
				if it := scPick(r, a, func(it *scItem) bool { return it.K == kEnum || it.K == kInput || it.K == kInterface }); it != nil && len(bad) > 0 {
					bad = append(bad, scItem{Ext: true, K: kObject, N: it.N, Fields: []scField{{N: 699, T: scT{N: 0}}}})
					push("ok", bad, "fail:extends-then-wrong-kind")
				}
			case 7: // a Mutation / Subscription type the root lacks, in a document that fails validation
				op := 11 + r.Intn(2)
				have := false
				for _, it := range w {
					if it.K == kObject && it.N == op {
						have = true
					}
				}
				hasSchema := false
				for _, it := range w {
					if it.K == kSchema {
						hasSchema = true
					}
				}
				if !have && !hasSchema {
					bad := []scItem{{K: kObject, N: op, Fields: []scField{{N: 664, T: scT{N: 0}}}}, {K: kEnum, N: 883}}
					m := apiMode(bad, true)
					push(m, bad, apiTag(m, "fail:new-operation-type-then-validation-error"))
				}
			case 5: // an enum/union/input extension, then a failure
				if it := scPick(r, a, func(it *scItem) bool { return it.K == kEnum || it.K == kUnion || it.K == kInput }); it != nil {
					x := scItem{Ext: true, K: it.K, N: it.N}
					switch it.K {
					case kEnum:
						x.Vals = []scEV{{N: 670 + r.Intn(20)}}
					case kUnion:
						x.Members = []int{it.Members[0]}
					case kInput:
						x.Inputs = []scArg{{N: 670 + r.Intn(20), T: scT{N: 0}}}
					}
					bad := []scItem{x, {K: kObject, N: 882, Fields: []scField{{N: 663, T: scT{N: 942}}}}}
					if r.Intn(2) == 0 { // the extension itself fails after its first member
						switch it.K {
						case kEnum:
							x.Vals = append(x.Vals, it.Vals[0])
						case kInput:
							x.Inputs = append(x.Inputs, it.Inputs[0])
						}
						bad = []scItem{x}
					}
					push("ok", bad, "fail:after-extend")
				}
			}
		}
		if len(b) > 0 {
			m := apiMode(b, false)
			push(m, b, apiTag(m, "load"))
		}
		// what a refused load tried to add to an accepted type can be added by a later valid load
		{
			var again [][]scItem
			for _, d := range docs {
				for _, it := range d {
					if it.Ext && len(it.Fields) == 1 && it.Fields[0].N >= 660 && it.Fields[0].N < 700 && it.K == kObject {
						again = append(again, []scItem{{Ext: true, K: it.K, N: it.N, Fields: []scField{it.Fields[0]}}})
					}
					if it.Ext && it.K == kEnum && len(it.Vals) >= 1 && it.Vals[0].N >= 660 && it.Vals[0].N < 700 {
						again = append(again, []scItem{{Ext: true, K: it.K, N: it.N, Vals: []scEV{it.Vals[0]}}})
					}
					if it.Ext && it.K == kInput && len(it.Inputs) >= 1 && it.Inputs[0].N >= 660 && it.Inputs[0].N < 700 {
						again = append(again, []scItem{{Ext: true, K: it.K, N: it.N, Inputs: []scArg{it.Inputs[0]}}})
					}
				}
			}
			if len(again) > 0 && r.Intn(4) != 0 {
				push("ok", again[r.Intn(len(again))], "load-after-refused-extension")
			}
		}
		if r.Intn(2) == 0 {
			push("ok", a, "fail:reload")
		}
		for _, t := range tags {
			if len(t) > 5 && t[:5] == "fail:" {
				tags = append(tags, "nontrivial")
				break
			}
		}
		out = append(out, scCase(fmt.Sprintf("h%d", i), ds, tags, scHuman(docs)))
	}
	// a directive argument of an input object type used with an object constant; a refused document
	// that gives the input type a new field with a default must not reach into the accepted use
	for i := 0; i < n/10+1; i++ {
		in := scItem{K: kInput, N: 30, Inputs: []scArg{{N: 10, T: scT{N: 0}}}}
		d := scItem{K: kDirective, N: 10, Inputs: []scArg{{N: 10, T: scT{N: 30}}}, Locs: []int{9}}
		q := scItem{K: kObject, N: 10, Fields: []scField{{N: 10, T: scT{N: 0}}},
			Dirs: []scDU{{N: 10, Args: []scAV{{N: 10, V: scV{K: "o", F: []int{10}, L: []scV{{K: "i", I: int64(1 + r.Intn(50))}}}}}}}}
		x := scItem{Ext: true, K: kInput, N: 30, Inputs: []scArg{{N: 11, T: scT{N: 0}, Def: &scV{K: "i", I: 3}}}}
		bad := scItem{K: kObject, N: 40}
		docs := [][]scItem{{in, d, q}, {x, bad}, {{K: kEnum, N: 41, Vals: []scEV{{N: 10}}}}}
		ds := []sx.S{scDocSx("ok", docs[0]), scDocSx("ok", docs[1]), scDocSx("ok", docs[2])}
		out = append(out, scCase(fmt.Sprintf("hobj%d", i), ds, []string{"nontrivial", "load", "fail:extend-input-default-then-error", "object-constant"}, scHuman(docs)))
	}
	return out
}

func init() {
	props["C13"] = &Prop{Gen: c13Gen, Exec: scExec, Valid: scValid}
	props["C14"] = &Prop{Gen: c14Gen, Exec: scExec, Valid: scValid}
	props["C16"] = &Prop{Gen: c16Gen, Exec: scExec, Valid: scValid}
}

type scArrangement struct {
	docs [][]scItem
	tag  string
}

// scTargeted builds arrangements aimed at the places where a single-pass loader can go wrong.
func scTargeted(r *rand.Rand, w []scItem) []scArrangement {
	var out []scArrangement
	// 00. an extension of the schema block where no schema block is declared (the schema is derived from
	//     the Query type): in the document that defines the types, before and behind them, and in a later load
	{
		declared, hasMut := false, false
		var obj *scItem
		for i := range w {
			if w[i].K == kSchema {
				declared = true
			}
			if w[i].K == kObject && w[i].N == 11 {
				hasMut = true
			}
			if w[i].K == kObject && !w[i].Ext && w[i].N >= 20 && obj == nil {
				obj = &w[i]
			}
		}
		if !declared && !hasMut && obj != nil {
			ext := scItem{Ext: true, K: kSchema, Fields: []scField{{N: 2, T: scT{N: obj.N}}}}
			c := scCopy(w)
			out = append(out, scArrangement{[][]scItem{append(append([]scItem{}, c...), ext)}, "extend-of-a-derived-schema-one-document"})
			out = append(out, scArrangement{[][]scItem{append([]scItem{ext}, c...)}, "extend-of-a-derived-schema-first-in-the-document"})
			out = append(out, scArrangement{[][]scItem{c, {ext}}, "extend-of-a-derived-schema-later-load"})
		}
	}
	// 0. a scalar that carries the name of a directive (types and directives are named apart), the
	//    directive used on a type defined behind it: in one document, and with the scalar and the
	//    directive known from an earlier load when the use is read
	for j := range w {
		if w[j].K != kDirective || w[j].N >= 100 {
			continue
		}
		req := false
		for _, a := range w[j].Inputs {
			if a.T.K == 2 && a.Def == nil {
				req = true
			}
		}
		if req {
			continue
		}
		done := false
		for ti := j + 1; ti < len(w) && !done; ti++ {
			loc := map[int]int{kScalar: 8, kObject: 9, kInterface: 12, kUnion: 13, kEnum: 14, kInput: 16}[w[ti].K]
			if loc == 0 || w[ti].Ext {
				continue
			}
			for _, l := range w[j].Locs {
				if l != loc {
					continue
				}
				used := false
				for _, u := range w[ti].Dirs {
					if u.N == w[j].N {
						used = true
					}
				}
				c := scCopy(w)
				if !used {
					c[ti].Dirs = append(c[ti].Dirs, scDU{N: w[j].N})
				}
				sc := scItem{K: kScalar, N: 800 + w[j].N}
				out = append(out, scArrangement{[][]scItem{append([]scItem{sc}, c...)}, "type-named-like-a-directive-one-document"})
				out = append(out, scArrangement{[][]scItem{append([]scItem{sc}, c[:j+1]...), append([]scItem{}, c[j+1:]...)}, "type-named-like-a-directive-earlier-load"})
				out = append(out, scArrangement{[][]scItem{append([]scItem{}, c[:j+1]...), append([]scItem{sc}, c[j+1:]...)}, "type-named-like-a-directive-with-the-use"})
				if c[ti].K == kObject {
					// ... and referred to as a field type before it is defined, the directive known from the earlier load
					c2 := scCopy(c)
					c2[ti].Fields = append(c2[ti].Fields, scField{N: 688, T: scT{N: 800 + w[j].N}})
					out = append(out, scArrangement{[][]scItem{append([]scItem{}, c2[:j+1]...), append(append([]scItem{}, c2[j+1:]...), sc)}, "type-named-like-a-directive-used-before-defined"})
					out = append(out, scArrangement{[][]scItem{append(append([]scItem{}, c2...), sc)}, "type-named-like-a-directive-used-before-defined-one-document"})
				}
				done = true
				break
			}
		}
		if done {
			break
		}
	}
	// 0b. a union whose first member comes from an earlier load and whose second member is defined in
	//     the union's own document
	for ui, u := range w {
		if u.K != kUnion || u.Ext || len(u.Members) < 2 {
			continue
		}
		b := u.Members[1]
		ok := true
		bi := -1
		for k := range w {
			if k != ui && (scRefers(w[k], u.N) || scRefers(w[k], b)) {
				ok = false
			}
			if w[k].Ext && (w[k].N == u.N || w[k].N == b) {
				ok = false
			}
			if w[k].K == kObject && !w[k].Ext && w[k].N == b {
				bi = k
				if len(w[k].Ifaces) > 0 {
					ok = true && ok
				}
			}
		}
		if !ok || bi < 0 || b == 10 || b == 11 || b == 12 {
			continue
		}
		var first, second []scItem
		for k := range w {
			if k == ui || k == bi {
				second = append(second, w[k])
			} else {
				first = append(first, w[k])
			}
		}
		out = append(out, scArrangement{[][]scItem{first, second}, "union-member-of-an-earlier-load-before-one-of-its-own-document"})
		break
	}
	// 1. a later load extends an interface with a field its implementers lack: refused in every
	//    arrangement, also when the implementers came in an earlier load
	for _, it := range w {
		if it.K != kInterface {
			continue
		}
		impl := false
		for _, o := range w {
			if o.K == kObject {
				for _, i := range o.Ifaces {
					if i == it.N {
						impl = true
					}
				}
			}
		}
		if impl {
			x := scItem{Ext: true, K: kInterface, N: it.N, Fields: []scField{{N: 690, T: scT{N: 0}}}}
			out = append(out, scArrangement{[][]scItem{scCopy(w), {x}}, "late-interface-extension"})
			one := append(scCopy(w), x)
			out = append(out, scArrangement{[][]scItem{one}, "interface-extension-one-document"})
			break
		}
	}
	// 2. a union whose directive uses and last member arrive through an extend block, in the same
	//    document before / after the definition, and in a later load
	for idx, it := range w {
		if it.K != kUnion || len(it.Members) < 2 {
			continue
		}
		var d *scItem
		for j := range w {
			if w[j].K == kDirective {
				ok := false
				for _, l := range w[j].Locs {
					if l == 13 {
						ok = true
					}
				}
				for _, a := range w[j].Inputs {
					if a.T.K == 2 && a.Def == nil {
						ok = false
					}
				}
				used := false
				for _, u := range it.Dirs {
					if u.N == w[j].N {
						used = true
					}
				}
				if ok && !used {
					d = &w[j]
				}
			}
		}
		if d == nil {
			break
		}
		base := scCopy(w)
		n := len(it.Members)
		base[idx].Members = it.Members[: n-1 : n-1]
		x := scItem{Ext: true, K: kUnion, N: it.N, Members: []int{it.Members[n-1]}, Dirs: []scDU{{N: d.N}}}
		inline := scCopy(w)
		inline[idx].Dirs = append(inline[idx].Dirs, scDU{N: d.N})
		out = append(out, scArrangement{[][]scItem{inline}, "union-directive-inline"})
		out = append(out, scArrangement{[][]scItem{append(scCopy(base), x)}, "union-directive-extend-after"})
		out = append(out, scArrangement{[][]scItem{append([]scItem{x}, scCopy(base)...)}, "union-directive-extend-before"})
		out = append(out, scArrangement{[][]scItem{scCopy(base), {x}}, "union-directive-extend-later-load"})
		break
	}
	// 3. an explicit null for a directive argument that has a default, with the directive known when
	//    the use is read (earlier load) and unknown (same document, defined after the use)
	for j := range w {
		if w[j].K != kDirective {
			continue
		}
		hasLoc := -1
		for _, l := range w[j].Locs {
			if l == 9 || l == 12 || l == 14 || l == 16 || l == 13 || l == 8 {
				hasLoc = l
			}
		}
		req := false
		for _, a := range w[j].Inputs {
			if a.T.K == 2 && a.Def == nil {
				req = true
			}
		}
		if hasLoc < 0 || req {
			continue
		}
		kind := map[int]int{9: kObject, 12: kInterface, 14: kEnum, 16: kInput, 13: kUnion, 8: kScalar}[hasLoc]
		for ti := range w {
			if w[ti].K != kind || w[ti].N == w[j].N {
				continue
			}
			used := false
			for _, u := range w[ti].Dirs {
				if u.N == w[j].N {
					used = true
				}
			}
			if used {
				continue
			}
			c := scCopy(w)
			c[j].Inputs = append(c[j].Inputs, scArg{N: 691, T: scT{N: 0}, Def: &scV{K: "i", I: 7}})
			c[ti].Dirs = append(c[ti].Dirs, scDU{N: w[j].N, Args: []scAV{{N: 691, V: scV{K: "null"}}}})
			var first, rest []scItem
			for k := range c {
				if k == j {
					first = append(first, c[k])
				} else {
					rest = append(rest, c[k])
				}
			}
			out = append(out, scArrangement{[][]scItem{append(append([]scItem{}, rest...), first...)}, "null-argument-directive-after"})
			out = append(out, scArrangement{[][]scItem{append(append([]scItem{}, first...), rest...)}, "null-argument-directive-before"})
			// the directive's own argument types must be loadable first: only when they are built in
			plain := true
			for _, a := range c[j].Inputs {
				b := a.T
				for b.Of != nil {
					b = *b.Of
				}
				if b.N >= 8 {
					plain = false
				}
				for range a.Dirs {
					plain = false
				}
			}
			if plain {
				out = append(out, scArrangement{[][]scItem{first, rest}, "null-argument-directive-earlier-load"})
			}
			return out
		}
	}
	return out
}
