package main

// Executor harness core: realise a (schema, data graph, document, call history) case on the real
// library and canonicalise what it does (data, error paths/locations/kinds, resolver call log).

import (
	"flag"
	"fmt"
	"math/rand"
	"os"
	"reflect"
	"regexp"
	"sort"
	"strconv"
	"strings"

	"github.com/uhn/ggql/pkg/ggql"

	"verifharness/sx"
)

type nodeBase struct {
	id int
	w  *world
}

type behav struct {
	kind string // const, fail, echo
	k    int
	v    sx.S
}

type gnode struct {
	gotype int
	fields map[int]behav
}

type world struct {
	nodes    map[int]*gnode
	strat    map[int]bool // gotype -> implements Resolver
	objs     map[int]interface{}
	calls    []sx.S
	strat3   map[int]byte           // C02: gotype -> 'R', 'A' or 'F' (reflection); overrides strat
	decl     map[[2]int][]int       // C02: (gotype, field) -> declared argument names in order
	regOrder map[[2]int][]int       // C02: the parameter order given to RegisterField, when it was used
	consts   map[[2]int]interface{} // (node, field) -> the Go value a constant field holds
	filled   map[int]bool           // C02: struct objects whose fields have all been placed
	objField map[[2]int]bool        // C02: (gotype, field) -> the field's type is a plain object type (no list, not abstract)
}

type lres struct{ items []interface{} }

func (l *lres) Len() int              { return len(l.items) }
func (l *lres) Nth(i int) interface{} { return l.items[i] }

type alist struct {
	items []interface{}
	fails []bool
}

type otherVal struct{ X int }

func (w *world) obj(id int) interface{} {
	if o, ok := w.objs[id]; ok {
		return o
	}
	n := w.nodes[id]
	if n == nil {
		return nil
	}
	r, ok := w.strat[n.gotype]
	if !ok {
		r = true
	}
	var o interface{}
	if n.gotype == 900 {
		if r {
			o = &RU{nodeBase{id: id, w: w}}
		} else {
			o = &AU{nodeBase{id: id, w: w}}
		}
		w.objs[id] = o
		return o
	}
	switch w.strat3[n.gotype] {
	case 'G':
		return w.structObj(id, n.gotype)
	case 'F':
		o = newReflectObj(w, id, n.gotype)
	case 'V':
		// reflection over methods with value receivers: the values of a type are struct values and
		// pointers to struct values side by side
		o = newValueObj(w, id, n.gotype, true)
	case 'M':
		// the values of one GraphQL type use different strategies: Resolver values and plain values
		// found by reflection, side by side in one graph
		if id%2 == 0 {
			o = newNodeObj(w, id, n.gotype, true)
		} else {
			o = newReflectObj(w, id, n.gotype)
		}
	case 'A':
		o = newNodeObj(w, id, n.gotype, false)
	case 'R':
		o = newNodeObj(w, id, n.gotype, true)
	default:
		o = newNodeObj(w, id, n.gotype, r)
	}
	w.objs[id] = o
	return o
}

func (w *world) goValue(g sx.S) interface{} {
	if a, ok := g.(string); ok {
		if a == "nil" {
			return nil
		}
		panic("bad gv " + a)
	}
	l := sx.List(g)
	switch sx.Head(g) {
	case "int":
		return sx.Int(l[1])
	case "str":
		if execNastyStrings { // C07: response strings with every class of character the JSON writer must escape
			return "s" + l[1].(string) + execNasty[(sx.Int(l[1])+execNastySalt)%len(execNasty)]
		}
		return "s" + l[1].(string)
	case "bool":
		return l[1].(string) != "0"
	case "sym":
		return ggql.Symbol("E" + l[1].(string))
	case "node":
		return w.obj(sx.Int(l[1]))
	case "list":
		out := make([]interface{}, 0, len(l)-1)
		for _, x := range l[1:] {
			out = append(out, w.goValue(x))
		}
		return out
	case "tlist":
		items := make([]interface{}, 0, len(l)-1)
		same := len(l) > 1
		for _, x := range l[1:] {
			v := w.goValue(x)
			items = append(items, v)
		}
		// one Go type for all members that are there; nil members become nil pointers of that type
		var et reflect.Type
		for _, v := range items {
			if v == nil {
				continue
			}
			if et == nil {
				et = reflect.TypeOf(v)
			} else if reflect.TypeOf(v) != et {
				same = false
			}
		}
		if !same || et == nil || et.Kind() != reflect.Ptr {
			return items
		}
		sl := reflect.MakeSlice(reflect.SliceOf(et), 0, len(items))
		for _, v := range items {
			if v == nil {
				sl = reflect.Append(sl, reflect.Zero(et))
			} else {
				sl = reflect.Append(sl, reflect.ValueOf(v))
			}
		}
		return sl.Interface()
	case "tstrs":
		out := []string{}
		for _, x := range l[1:] {
			out = append(out, "s"+x.(string))
		}
		return out
	case "tints":
		out := []int{}
		for _, x := range l[1:] {
			out = append(out, sx.Int(x))
		}
		return out
	case "tbools":
		out := []bool{}
		for _, x := range l[1:] {
			out = append(out, x.(string) != "0")
		}
		return out
	case "lres":
		out := &lres{}
		for _, x := range l[1:] {
			out.items = append(out.items, w.goValue(x))
		}
		return out
	case "alist":
		out := &alist{}
		for _, x := range l[1:] {
			if a, ok := x.(string); ok && a == "fail" {
				out.items = append(out.items, nil)
				out.fails = append(out.fails, true)
			} else {
				out.items = append(out.items, w.goValue(x))
				out.fails = append(out.fails, false)
			}
		}
		return out
	case "other":
		return otherVal{X: sx.Int(l[1])}
	}
	panic("bad gv")
}

func nameID(s string, prefix string) (int, bool) {
	if !strings.HasPrefix(s, prefix) {
		return 0, false
	}
	n, err := strconv.Atoi(s[len(prefix):])
	return n, err == nil
}

// canonArg renders an argument value the way a resolver received it.
func canonArg(v interface{}) sx.S {
	switch t := v.(type) {
	case nil:
		return "null"
	case int32:
		return sx.L("i", sx.A(int(t)))
	case int64:
		return sx.L("i", sx.A(int(t)))
	case int:
		return sx.L("i", sx.A(t))
	case string:
		if n, ok := nameID(t, "s"); ok {
			return sx.L("s", sx.A(n))
		}
		return sx.L("sx", sx.Hex(t))
	case bool:
		return sx.L("b", sx.A(t))
	case ggql.Symbol:
		if n, ok := nameID(string(t), "E"); ok {
			return sx.L("e", sx.A(n))
		}
		return sx.L("ex", sx.Hex(string(t)))
	case ggql.Var:
		if n, ok := nameID(string(t), "v"); ok {
			return sx.L("v", sx.A(n))
		}
		return sx.L("vx", sx.Hex(string(t)))
	case []interface{}:
		out := []sx.S{"l"}
		for _, x := range t {
			out = append(out, canonArg(x))
		}
		return out
	case map[string]interface{}:
		keys := make([]int, 0, len(t))
		for k := range t {
			n, _ := nameID(k, "a")
			keys = append(keys, n)
		}
		sort.Ints(keys)
		out := []sx.S{"o"}
		for _, k := range keys {
			out = append(out, sx.L(sx.A(k), canonArg(t["a"+strconv.Itoa(k)])))
		}
		return out
	}
	return sx.L("goval", sx.Hex(fmt.Sprintf("%T", v)))
}

func (w *world) resolve(id int, f *ggql.Field, args map[string]interface{}) (interface{}, error) {
	name, _ := nameID(f.Name, "f")
	keys := make([]int, 0, len(args))
	for k := range args {
		n, ok := nameID(k, "a")
		if !ok {
			n = -1
		}
		keys = append(keys, n)
	}
	sort.Ints(keys)
	cargs := []sx.S{}
	for _, k := range keys {
		cargs = append(cargs, sx.L(sx.A(k), canonArg(args["a"+strconv.Itoa(k)])))
	}
	w.calls = append(w.calls, sx.L("c", sx.A(id), sx.A(name), cargs))
	n := w.nodes[id]
	if n == nil {
		return nil, fmt.Errorf("resolver failed: no node")
	}
	b, ok := n.fields[name]
	if !ok {
		return nil, fmt.Errorf("resolver failed: no such field")
	}
	switch b.kind {
	case "const":
		// the data is the application's own: the same Go value (the same slice) every time the field is
		// asked for - by another alias, another element, another request on the same root
		if w.consts == nil {
			w.consts = map[[2]int]interface{}{}
		}
		if v, ok := w.consts[[2]int{id, name}]; ok {
			return v, nil
		}
		v := w.goValue(b.v)
		w.consts[[2]int{id, name}] = v
		return v, nil
	case "fail":
		v := w.goValue(b.v)
		if b.k == 0 {
			return v, fmt.Errorf("resolver failed")
		}
		var es ggql.Errors
		for i := 0; i < b.k; i++ {
			es = append(es, fmt.Errorf("resolver failed %d", i))
		}
		if b.k >= 2 && (id+name)%2 == 0 {
			// the same failures as a group that holds a group (a resolver passing on what its steps returned)
			es = ggql.Errors{es[0], es[1:]}
		}
		return v, es
	case "echo":
		// a resolver of the model's world hands back Go ints (GInt), also when it echoes an Int argument
		return echoValue(args["a"+strconv.Itoa(b.k)]), nil
	}
	return nil, nil
}

// RU / AU: Go types no object type is ever bound to (graph nodes of type 900)
type RU struct{ nodeBase }

func (n *RU) Resolve(f *ggql.Field, args map[string]interface{}) (interface{}, error) {
	return n.w.resolve(n.id, f, args)
}

type AU struct{ nodeBase }

func echoValue(v interface{}) interface{} {
	switch t := v.(type) {
	case int32:
		return int(t)
	case []interface{}:
		out := make([]interface{}, len(t))
		for i, x := range t {
			out[i] = echoValue(x)
		}
		return out
	}
	return v
}

type anyRes struct{ w *world }

func (a *anyRes) Resolve(obj interface{}, f *ggql.Field, args map[string]interface{}) (interface{}, error) {
	if _, isResolver := obj.(ggql.Resolver); isResolver {
		// an object that resolves itself must never be handed to the root resolver (precedence)
		return nil, fmt.Errorf("precedence broken: the root resolver was asked for a Resolver object")
	}
	if id, ok := nodeIDOf(obj); ok {
		return a.w.resolve(id, f, args)
	}
	if u, ok := obj.(*AU); ok { // a data node whose Go type is bound to no object type
		return a.w.resolve(u.id, f, args)
	}
	return nil, fmt.Errorf("resolver failed: not a data node")
}
func (a *anyRes) Len(list interface{}) int {
	if l, ok := list.(*alist); ok {
		return len(l.items)
	}
	if rv := reflect.ValueOf(list); rv.Kind() == reflect.Slice && rv.Type().Elem().Kind() == reflect.Ptr {
		return rv.Len() // a typed slice of objects
	}
	return 0
}
func (a *anyRes) Nth(list interface{}, i int) (interface{}, error) {
	if l, ok := list.(*alist); ok && i < len(l.items) {
		if l.fails[i] {
			return nil, fmt.Errorf("nth failed")
		}
		return l.items[i], nil
	}
	if rv := reflect.ValueOf(list); rv.Kind() == reflect.Slice && rv.Type().Elem().Kind() == reflect.Ptr && i < rv.Len() {
		return rv.Index(i).Interface(), nil
	}
	return nil, fmt.Errorf("nth failed: not a list")
}

type execSchemaObj struct {
	w    *world
	q, m int
}

func (s *execSchemaObj) Resolve(f *ggql.Field, _ map[string]interface{}) (interface{}, error) {
	switch f.Name {
	case "query":
		if s.q < 0 {
			return nil, nil
		}
		return s.w.obj(s.q), nil
	case "mutation":
		if s.m < 0 {
			return nil, nil
		}
		return s.w.obj(s.m), nil
	}
	return nil, nil
}

// ---- rendering of schema and document text ----
// queryNamed: the object type (not the query root) that carries the name "Query" in the case at hand; the
// query root is then called T1 and a schema block names it (0: the conventional names)
var queryNamed int

func typeName(id int) string {
	if queryNamed != 0 && id == queryNamed {
		return "Query"
	}
	switch id {
	case 1:
		if queryNamed != 0 {
			return "T1"
		}
		return "Query"
	case 2:
		return "Mutation"
	case 3:
		return "Subscription"
	case 10:
		return "Int"
	case 11:
		return "String"
	case 12:
		return "Boolean"
	case 13:
		return "ID"
	case 14:
		return "Float"
	}
	return "T" + strconv.Itoa(id)
}

func typeID(name string) (int, bool) {
	if queryNamed != 0 && name == "Query" {
		return queryNamed, true
	}
	for _, id := range []int{1, 2, 3, 10, 11, 12, 13, 14} {
		if typeName(id) == name {
			return id, true
		}
	}
	return nameID(name, "T")
}

func tyText(t sx.S) string {
	l := sx.List(t)
	switch sx.Head(t) {
	case "n":
		return typeName(sx.Int(l[1]))
	case "l":
		return "[" + tyText(l[1]) + "]"
	case "nn":
		return tyText(l[1]) + "!"
	}
	panic("bad type")
}

func argDefsText(args []sx.S) string {
	if len(args) == 0 {
		return ""
	}
	parts := []string{}
	for _, a := range args {
		al := sx.List(a)
		parts = append(parts, "a"+al[1].(string)+": "+tyText(al[2]))
	}
	return "(" + strings.Join(parts, ", ") + ")"
}

func schemaText(types []sx.S) string {
	var b strings.Builder
	// an executable directive of the schema's own: it may stand on any selection and chooses nothing
	b.WriteString("directive @d8 on FIELD | FRAGMENT_SPREAD | INLINE_FRAGMENT\n")
	if queryNamed != 0 {
		b.WriteString("schema { query: " + typeName(1))
		for _, t := range types {
			if sx.Head(t) == "obj" && sx.Int(sx.List(t)[1]) == 2 {
				b.WriteString(" mutation: " + typeName(2))
			}
		}
		b.WriteString(" }\n")
	}
	for _, t := range types {
		l := sx.List(t)
		switch sx.Head(t) {
		case "leaf":
			if sx.Int(l[1]) >= 20 {
				fmt.Fprintf(&b, "scalar %s\n", typeName(sx.Int(l[1])))
			}
		case "enum":
			fmt.Fprintf(&b, "enum %s {", typeName(sx.Int(l[1])))
			for _, v := range sx.List(l[2]) {
				fmt.Fprintf(&b, " E%s", v.(string))
			}
			b.WriteString(" }\n")
		case "obj", "iface":
			kw := "type"
			if sx.Head(t) == "iface" {
				kw = "interface"
			}
			fmt.Fprintf(&b, "%s %s", kw, typeName(sx.Int(l[1])))
			if sx.Head(t) == "obj" {
				ifs := sx.List(l[3])[1:]
				for i, x := range ifs {
					if i == 0 {
						b.WriteString(" implements ")
					} else {
						b.WriteString(" & ")
					}
					b.WriteString(typeName(sx.Int(x)))
				}
			}
			b.WriteString(" {\n")
			for _, f := range sx.List(l[2])[1:] {
				fl := sx.List(f)
				fmt.Fprintf(&b, "  f%s%s: %s\n", fl[1].(string), argDefsText(sx.List(fl[3])[1:]), tyText(fl[2]))
			}
			b.WriteString("}\n")
		case "union":
			fmt.Fprintf(&b, "union %s =", typeName(sx.Int(l[1])))
			for i, m := range sx.List(l[2])[1:] {
				if i > 0 {
					b.WriteString(" |")
				}
				b.WriteString(" " + typeName(sx.Int(m)))
			}
			b.WriteString("\n")
		case "input":
			fmt.Fprintf(&b, "input %s {\n", typeName(sx.Int(l[1])))
			for _, a := range sx.List(l[2])[1:] {
				al := sx.List(a)
				fmt.Fprintf(&b, "  a%s: %s\n", al[1].(string), tyText(al[2]))
			}
			b.WriteString("}\n")
		}
	}
	return b.String()
}

func valueText(v sx.S) string {
	if a, ok := v.(string); ok {
		return a // null
	}
	l := sx.List(v)
	switch sx.Head(v) {
	case "i":
		return l[1].(string)
	case "s":
		return `"s` + l[1].(string) + `"`
	case "b":
		if l[1].(string) == "0" {
			return "false"
		}
		return "true"
	case "e":
		return "E" + l[1].(string)
	case "v":
		return "$v" + l[1].(string)
	case "l":
		parts := []string{}
		for _, x := range l[1:] {
			parts = append(parts, valueText(x))
		}
		return "[" + strings.Join(parts, ", ") + "]"
	case "o":
		parts := []string{}
		for _, kv := range l[1:] {
			kvl := sx.List(kv)
			parts = append(parts, "a"+kvl[0].(string)+": "+valueText(kvl[1]))
		}
		return "{" + strings.Join(parts, ", ") + "}"
	}
	panic("bad value")
}

func dirsText(dirs []sx.S) string {
	var b strings.Builder
	for _, d := range dirs {
		dl := sx.List(d)
		nm := dl[1].(string)
		if nm == "0" {
			nm = "deprecated"
		} else if nm != "skip" && nm != "include" {
			nm = "d" + nm
		}
		b.WriteString(" @" + nm)
		if a, ok := dl[2].(string); !ok || a != "-" {
			if sx.Head(dl[2]) == "undecl" { // (undecl <value> <variable>): the condition and an argument no directive declares
				ul := sx.List(dl[2])
				b.WriteString("(if: " + valueText(ul[1]) + ", unless: " + valueText(ul[2]) + ")")
			} else {
				b.WriteString("(if: " + valueText(dl[2]) + ")")
			}
		}
	}
	return b.String()
}

// selText renders selections in document order and records the node ids in the same order.
// execNastyStrings makes string leaves carry control characters, quotes, backslashes, non-ASCII
// and invalid UTF-8 (set by C07 only, which compares no data)
var execNastyStrings bool

// execNastySalt shifts which of the strings below a string id gets (set per case: the ids are few)
var execNastySalt = 0

var execNasty = []string{"", "\x01", "\x1f", "\x7f", "\"q\"", "\\", "\n\r\t\b\f", "é日😀", "\u2028\u2029", "\xff\xfe", "\x00", "/"}

// docOffsets, when set, receives for every node appended to order the byte offset of its first token
var docOffsets *[]int

func noteOffset(b *strings.Builder) {
	if docOffsets != nil {
		*docOffsets = append(*docOffsets, b.Len())
	}
}

// keyText: the response key of alias a; alias 12 is written "data", the key of the envelope itself
func keyText(a string) string {
	if a == "12" {
		return "data"
	}
	return "f" + a
}

func keyID(k string) (int, bool) {
	if k == "data" {
		return 12, true
	}
	if k == "__schema" {
		return 98, true
	}
	if k == "__type" {
		return 99, true
	}
	return nameID(k, "f")
}

func selText(b *strings.Builder, s sx.S, order *[]int) {
	l := sx.List(s)
	switch sx.Head(s) {
	case "f":
		noteOffset(b)
		*order = append(*order, sx.Int(l[1]))
		if a, ok := l[2].(string); ok && a != "-" {
			b.WriteString(keyText(a) + ": ")
		}
		if l[3].(string) == "0" {
			b.WriteString("__typename")
		} else if l[3].(string) == "98" {
			b.WriteString("__schema")
		} else if l[3].(string) == "99" {
			b.WriteString("__type")
		} else {
			b.WriteString("f" + l[3].(string))
		}
		args := sx.List(l[4])[1:]
		if len(args) > 0 {
			parts := []string{}
			for _, a := range args {
				al := sx.List(a)
				parts = append(parts, "a"+al[1].(string)+": "+valueText(al[2]))
			}
			b.WriteString("(" + strings.Join(parts, ", ") + ")")
		}
		b.WriteString(dirsText(sx.List(l[5])[1:]))
		if len(l) > 6 {
			b.WriteString(" {")
			for _, x := range l[6:] {
				b.WriteString(" ")
				selText(b, x, order)
			}
			b.WriteString(" }")
		}
	case "in":
		*order = append(*order, sx.Int(l[1]))
		b.WriteString("...")
		// the position of an inline fragment is that of the first token after "..." (and "on")
		if a, ok := l[2].(string); ok && a != "-" {
			b.WriteString(" on ")
			noteOffset(b)
			switch a {
			case "98":
				b.WriteString("skip") // the name of a directive where a type is expected
			case "97":
				b.WriteString("[T99]") // a list of an undefined type
			default:
				b.WriteString(typeName(sx.Int(l[2])))
			}
		} else if docOffsets != nil {
			*docOffsets = append(*docOffsets, b.Len()+1)
		}
		b.WriteString(dirsText(sx.List(l[3])[1:]))
		b.WriteString(" {")
		for _, x := range l[4:] {
			b.WriteString(" ")
			selText(b, x, order)
		}
		b.WriteString(" }")
	case "fr":
		*order = append(*order, sx.Int(l[1]))
		if docOffsets != nil {
			*docOffsets = append(*docOffsets, b.Len()+3)
		}
		b.WriteString("...F" + l[2].(string))
		b.WriteString(dirsText(sx.List(l[3])[1:]))
	}
}

func docText(doc []sx.S) (string, []int) {
	var b strings.Builder
	var order []int
	var ops, frags []sx.S
	for _, sec := range doc {
		switch sx.Head(sec) {
		case "ops":
			ops = sx.List(sec)[1:]
		case "frags":
			frags = sx.List(sec)[1:]
		}
	}
	for _, o := range ops {
		ol := sx.List(o)
		kind := ol[1].(string)
		name := ol[2].(string)
		vars := sx.List(ol[3])[1:]
		if kind == "query" && name == "-" && len(vars) == 0 {
			// anonymous shorthand
		} else {
			b.WriteString(kind)
			if name != "-" {
				b.WriteString(" O" + name)
			}
			if len(vars) > 0 {
				parts := []string{}
				for _, v := range vars {
					vl := sx.List(v)
					p := "$v" + vl[1].(string) + ": " + tyText(vl[2])
					if a, ok := vl[3].(string); !ok || a != "-" {
						p += " = " + valueText(vl[3])
					}
					parts = append(parts, p)
				}
				b.WriteString("(" + strings.Join(parts, ", ") + ")")
			}
			b.WriteString(" ")
		}
		b.WriteString("{")
		for _, s := range ol[4:] {
			b.WriteString(" ")
			selText(&b, s, &order)
		}
		b.WriteString(" }\n")
	}
	for _, f := range frags {
		fl := sx.List(f)
		b.WriteString("fragment F" + fl[1].(string))
		if a, ok := fl[2].(string); ok && a != "-" {
			b.WriteString(" on " + typeName(sx.Int(fl[2])))
		}
		body := fl[3:]
		if len(body) > 0 && sx.Head(body[0]) == "fdirs" { // directive uses on the definition itself
			b.WriteString(dirsText(sx.List(body[0])[1:]))
			body = body[1:]
		}
		b.WriteString(" {")
		for _, s := range body {
			b.WriteString(" ")
			selText(&b, s, &order)
		}
		b.WriteString(" }\n")
	}
	return b.String(), order
}

// ---- canonicalisation of responses ----
func canonData(v interface{}) sx.S {
	switch t := v.(type) {
	case nil:
		return "null"
	case int32:
		return sx.L("i", sx.A(int(t)))
	case int64:
		return sx.L("i64", sx.A(t))
	case int:
		return sx.L("goint", sx.A(t))
	case float32:
		if float32(int(t)) == t {
			return sx.L("foi", sx.A(int(t)))
		}
		return sx.L("f32", sx.Hex(strconv.FormatFloat(float64(t), 'g', -1, 32)))
	case float64:
		return sx.L("f64", sx.Hex(strconv.FormatFloat(t, 'g', -1, 64)))
	case bool:
		return sx.L("b", sx.A(t))
	case string:
		if n, ok := nameID(t, "s"); ok {
			return sx.L("s", sx.A(n))
		}
		if n, ok := nameID(t, "E"); ok {
			return sx.L("en", sx.A(n))
		}
		if n, ok := typeID(t); ok {
			return sx.L("tn", sx.A(n))
		}
		if n, err := strconv.Atoi(t); err == nil {
			return sx.L("soi", sx.A(n))
		}
		if t == "true" || t == "false" {
			return sx.L("sob", sx.A(t == "true"))
		}
		return sx.L("sx", sx.Hex(t))
	case []interface{}:
		out := []sx.S{"l"}
		for _, x := range t {
			out = append(out, canonData(x))
		}
		return out
	case []string, []int, []bool:
		// typed slices only reach "data" unconverted (depth budget exhausted)
		rv := reflect.ValueOf(t)
		out := []sx.S{"l"}
		for i := 0; i < rv.Len(); i++ {
			out = append(out, canonData(rv.Index(i).Interface()))
		}
		return out
	case map[string]interface{}:
		type kv struct {
			n int
			k string
		}
		keys := make([]kv, 0, len(t))
		for k := range t {
			n, ok := keyID(k)
			if !ok {
				n = -1
				if k == "__typename" {
					n = 0
				}
			}
			keys = append(keys, kv{n, k})
		}
		sort.Slice(keys, func(i, j int) bool { return keys[i].n < keys[j].n })
		out := []sx.S{"o"}
		for _, k := range keys {
			out = append(out, sx.L(sx.A(k.n), canonData(t[k.k])))
		}
		return out
	}
	if rv := reflect.ValueOf(v); rv.IsValid() && rv.Kind() == reflect.Slice {
		// any other typed slice that reached "data" unconverted: its members are the application's own
		// (a nil pointer among them is the null member of that list)
		out := []sx.S{"l"}
		for i := 0; i < rv.Len(); i++ {
			if e := rv.Index(i); e.Kind() == reflect.Ptr && e.IsNil() {
				out = append(out, "null")
				continue
			}
			out = append(out, canonData(rv.Index(i).Interface()))
		}
		return out
	}
	return sx.L("leak")
}

var kindTable = []struct {
	re   *regexp.Regexp
	kind string
}{
	{regexp.MustCompile(`resolver failed`), "resolver"},
	{regexp.MustCompile(`can not be passed as a`), "resolver"}, // a reflected method whose parameter cannot take the argument: the field fails
	{regexp.MustCompile(`nth failed`), "nth"},
	{regexp.MustCompile(`is not a field in`), "notfield"},
	{regexp.MustCompile(`meta-field is only on the query object`), "notfield"},
	{regexp.MustCompile(`is not a field of`), "reflect"},
	{regexp.MustCompile(`is not a valid output leaf type`), "notleaf"},
	{regexp.MustCompile(`is not a list type`), "notlist"},
	{regexp.MustCompile(`is not an argument to`), "badarg"},
	{regexp.MustCompile(`is required but missing`), "missingarg"},
	{regexp.MustCompile(`is not a valid enum value`), "badenum"},
	{regexp.MustCompile(`is not a valid 'if' value`), "skipvar"},
	{regexp.MustCompile(`could not determine operation`), "opchoice"},
	{regexp.MustCompile(`strconv\.Parse`), "coerceout"},
	{regexp.MustCompile(`can not coerce .* into a \[*(Int|String|Boolean|ID|Float|T\d+)`), "coerce"},
}

var fragAtRe = regexp.MustCompile(`^fragment at (\d+):(\d+)$`)

type execRun struct {
	posToID map[[2]int]int
}

func (er *execRun) canonErr(e map[string]interface{}, execPhase bool) sx.S {
	path := []sx.S{}
	if p, ok := e["path"].([]interface{}); ok {
		for _, seg := range p {
			switch t := seg.(type) {
			case int:
				path = append(path, sx.L("i", sx.A(t)))
			case string:
				if n, ok := keyID(t); ok {
					path = append(path, sx.L("k", sx.A(n)))
				} else if t == "__typename" {
					path = append(path, sx.L("k", "0"))
				} else if n, ok := nameID(t, "a"); ok {
					path = append(path, sx.L("a", sx.A(n)))
				} else if m := fragAtRe.FindStringSubmatch(t); m != nil {
					l, _ := strconv.Atoi(m[1])
					c, _ := strconv.Atoi(m[2])
					if id, ok := er.posToID[[2]int{l, c}]; ok {
						path = append(path, sx.L("fa", sx.A(id)))
					} else {
						path = append(path, sx.L("fa", "-1"))
					}
				} else {
					path = append(path, sx.L("kx", sx.Hex(t)))
				}
			default:
				path = append(path, sx.L("badseg", sx.Hex(fmt.Sprintf("%T", seg))))
			}
		}
	}
	var loc sx.S = "none"
	if ls, ok := e["locations"].([]interface{}); ok && len(ls) > 0 {
		if lm, ok := ls[0].(map[string]interface{}); ok {
			l, _ := lm["line"].(int)
			c, _ := lm["column"].(int)
			if id, ok := er.posToID[[2]int{l, c}]; ok {
				loc = sx.L("n", sx.A(id))
			} else {
				loc = "other"
			}
		}
	}
	msg, _ := e["message"].(string)
	kind := "unknown:" + strings.ReplaceAll(msg, " ", "_")
	for _, k := range kindTable {
		if k.re.MatchString(msg) {
			kind = k.kind
			break
		}
	}
	if kind == "coerce" {
		// input and output coercion share their message; input coercion errors have no location inside
		// execution (resWarnp(nil)) or belong to variable binding
		kind = "coerceout"
		if sxs, ok := loc.(string); ok && (sxs == "none" || !execPhase) {
			kind = "coercein"
		}
		if !execPhase {
			kind = "coercein"
		}
	}
	if (kind == "badenum" || kind == "coerceout") && (!execPhase || len(path) == 0) {
		// no response path: the failure belongs to no selection, it is the value of a variable that its
		// declared type refuses (for an enum: not a member)
		kind = "coercein"
	}
	return sx.L("e", path, loc, kind)
}

func sortSexps(l []sx.S) []sx.S {
	sort.Slice(l, func(i, j int) bool { return sx.String(l[i]) < sx.String(l[j]) })
	return l
}

func section(secs []sx.S, name string) []sx.S {
	for _, s := range secs {
		if sx.Head(s) == name {
			return sx.List(s)[1:]
		}
	}
	return nil
}

// collect positions of selection nodes in document order from the parsed executable
func collectPositions(sels []ggql.Selection, out *[][2]int) {
	for _, s := range sels {
		*out = append(*out, [2]int{s.Line(), s.Column()})
		switch t := s.(type) {
		case *ggql.Field:
			collectPositions(t.Sels, out)
		case *ggql.Inline:
			collectPositions(t.Sels, out)
		}
	}
}

func execExec(input sx.S) (obs sx.S) {
	secs := sx.List(input)[1:]
	root, w, fail := execSetup(secs)
	if fail != nil {
		return fail
	}
	return execRunDoc(secs, root, w)
}

// execSetup builds the world and the root of a case.
func execSetup(secs []sx.S) (*ggql.Root, *world, sx.S) {
	w := &world{nodes: map[int]*gnode{}, strat: map[int]bool{}, objs: map[int]interface{}{}}
	for _, s := range section(secs, "strat") {
		sl := sx.List(s)
		w.strat[sx.Int(sl[0])] = sl[1].(string) == "R"
	}
	for _, n := range section(secs, "graph") {
		nl := sx.List(n)
		gn := &gnode{gotype: sx.Int(nl[2]), fields: map[int]behav{}}
		for _, f := range nl[3:] {
			fl := sx.List(f)
			bl := sx.List(fl[2])
			b := behav{kind: sx.Head(fl[2])}
			switch b.kind {
			case "const":
				b.v = bl[1]
			case "fail":
				b.k = sx.Int(bl[1])
				b.v = bl[2]
			case "echo":
				b.k = sx.Int(bl[1])
			}
			gn.fields[sx.Int(fl[1])] = b
		}
		w.nodes[sx.Int(nl[1])] = gn
	}
	if u := section(secs, "unbind"); len(u) > 0 {
		// an object type that is bound to no Go type (C08: the first member of a union, of which the graph holds no value)
		old := execUnbind
		execUnbind = sx.Int(u[0])
		defer func() { execUnbind = old }()
	}
	queryNamed = 0
	if qn := section(secs, "queryname"); len(qn) > 0 {
		queryNamed = sx.Int(qn[0])
	}
	rt := section(secs, "root")
	so := &execSchemaObj{w: w, q: sx.Int(rt[0]), m: sx.Int(rt[1])}
	root := ggql.NewRoot(so)
	types := section(secs, "schema")
	if err := root.ParseString(schemaText(types)); err != nil {
		return nil, nil, sx.L("schema-error", sx.Hex(err.Error()))
	}
	if a := section(secs, "any"); len(a) > 0 && a[0].(string) != "0" {
		root.AnyResolver = &anyRes{w: w}
	}
	// bind every object type to its Go type up front (registered bindings)
	if !execLateBinding {
		if err := execRegisterAll(root, w, types); err != nil {
			return nil, nil, sx.L("register-error", sx.Hex(err.Error()))
		}
	}
	return root, w, nil
}

// execUnbind: the object type execSetup leaves unbound (C07: a union member ggql cannot tell the Go type of)
var execUnbind = -1

// execLateBinding: execSetup leaves the object types unbound (the late-binding leg registers them
// after a first request has run)
var execLateBinding bool

func execRegisterAll(root *ggql.Root, w *world, types []sx.S) error {
	for _, t := range types {
		if sx.Head(t) == "obj" {
			id := sx.Int(sx.List(t)[1])
			if id == execUnbind {
				continue
			}
			r, ok := w.strat[id]
			if !ok {
				r = true
			}
			if err := root.RegisterType(newNodeObj(w, -1, id, r), typeName(id)); err != nil {
				return err
			}
		}
	}
	return nil
}

// latebindMain is the late-binding leg of C08: the executor model takes the bindings of Go types to
// object types as static data of a case.  Here every case runs on two roots: one with all types
// registered before the first request, one that answers the request once with every type unbound,
// then has the types registered, then answers again.  Once the types are bound the second root
// must answer exactly as the first (whatever it remembered from the time they were not).
func latebindMain(args []string) {
	fs := flag.NewFlagSet("latebind", flag.ExitOnError)
	seed := fs.Int64("seed", 1, "PRNG seed")
	n := fs.Int("n", 300, "cases")
	_ = fs.Parse(args)
	r := rand.New(rand.NewSource(*seed))
	p := profC08
	p.pIll, p.noWrongType = 0, true // well-typed data only: a value of another Go type met first is bound to the object type by ggql's lazy binding, and the later registration is then refused
	bad := 0
	abstract := 0
	for i := 0; i < *n; i++ {
		c := genExecCase(r, &p, "lb"+strconv.Itoa(i))
		secs := sx.List(c.Input)[1:]
		for _, t := range c.Tags {
			if t == "abstract-field" {
				abstract++
			}
		}
		first := execExec(c.Input)
		execLateBinding = true
		root, w, fail := execSetup(secs)
		execLateBinding = false
		var second sx.S
		if fail != nil {
			second = fail
		} else {
			_ = execRunDoc(secs, root, w) // every type still unbound
			if err := execRegisterAll(root, w, section(secs, "schema")); err != nil {
				second = sx.L("register-error", sx.Hex(err.Error()))
			} else {
				second = execRunDoc(secs, root, w)
			}
		}
		if sx.String(first) != sx.String(second) {
			bad++
			if bad <= 3 {
				fmt.Printf("FAIL %s\n  request: %s\n  types registered first: %s\n  types registered after a first request: %s\n  case: %s\n",
					c.ID, strings.ReplaceAll(c.Human, "\n", " "), sx.String(first), sx.String(second), sx.String(c.Input))
			}
		}
	}
	fmt.Printf("latebind: %d cases (%d with abstract-typed fields), %d differ\n", *n, abstract, bad)
	if bad > 0 {
		os.Exit(1)
	}
	os.Exit(0)
}

// withMaxDepth sets the depth budget of the run (ggql.MaxResolveDepth, a package variable: the
// harness runs its cases one after the other) and returns the function that restores it
func withMaxDepth(secs []sx.S) func() {
	md := section(secs, "maxdepth")
	if len(md) != 1 {
		return func() {}
	}
	old := ggql.MaxResolveDepth
	ggql.MaxResolveDepth = sx.Int(md[0])
	return func() { ggql.MaxResolveDepth = old }
}

func execRunDoc(secs []sx.S, root *ggql.Root, w *world) (obs sx.S) {
	defer withMaxDepth(secs)()
	text, order := docText(section(secs, "doc"))
	defer func() {
		if r := recover(); r != nil {
			obs = sx.L("panic", sx.Hex(fmt.Sprint(r)))
		}
	}()
	exe, perr := root.ParseExecutableString(text)
	er := &execRun{posToID: map[[2]int]int{}}
	if exe != nil {
		// document order of operations and fragments is the text order; Ops is a map, so walk by name
		var pos [][2]int
		var ops, frags []sx.S
		for _, sec := range section(secs, "doc") {
			switch sx.Head(sec) {
			case "ops":
				ops = sx.List(sec)[1:]
			case "frags":
				frags = sx.List(sec)[1:]
			}
		}
		for _, o := range ops {
			name := sx.List(o)[2].(string)
			key := ""
			if name != "-" {
				key = "O" + name
			}
			if op := exe.Ops[key]; op != nil {
				collectPositions(op.Sels, &pos)
			}
		}
		for _, f := range frags {
			if fr := exe.Fragments["F"+sx.List(f)[1].(string)]; fr != nil {
				collectPositions(fr.Sels, &pos)
			}
		}
		if len(pos) == len(order) {
			for i, p := range pos {
				er.posToID[p] = order[i]
			}
		}
	}
	printed := func() string {
		if exe == nil {
			return ""
		}
		names := []string{}
		for k := range exe.Ops {
			names = append(names, k)
		}
		sort.Strings(names)
		var b strings.Builder
		for _, k := range names {
			b.WriteString(exe.Ops[k].String())
		}
		fn := []string{}
		for k := range exe.Fragments {
			fn = append(fn, k)
		}
		sort.Strings(fn)
		for _, k := range fn {
			b.WriteString(exe.Fragments[k].String())
		}
		return b.String()
	}
	before := printed()
	unstable := false
	outs := []sx.S{}
	for _, c := range section(secs, "calls") {
		cl := sx.List(c)
		opName := ""
		if cl[1].(string) != "-" {
			opName = "O" + cl[1].(string)
		}
		var vars map[string]interface{}
		vs := sx.List(cl[2])[1:]
		if len(vs) > 0 {
			vars = map[string]interface{}{}
			for _, v := range vs {
				vl := sx.List(v)
				vars["v"+vl[0].(string)] = jsonValue(vl[1])
			}
		}
		w.calls = nil
		if perr != nil {
			outs = append(outs, sx.L("rejected"))
			continue
		}
		result, err := root.ResolveExecutable(exe, opName, vars)
		errs := []sx.S{}
		if err != nil {
			for _, e := range ggql.FormErrorsResult(err) {
				if em, ok := e.(map[string]interface{}); ok {
					errs = append(errs, er.canonErr(em, result != nil))
				}
			}
		}
		var data sx.S = "nodata"
		if result != nil {
			data = canonData(result["data"])
		}
		outs = append(outs, sx.L("resp", data, sortSexps(errs), append([]sx.S{}, w.calls...)))
		// printing reads the request: two prints in a row are the same text, and the calls that follow
		// answer as if nothing had been printed
		if p1, p2 := printed(), printed(); p1 != p2 {
			unstable = true
		}
	}
	switch after := printed(); {
	case unstable:
		outs = append(outs, sx.L("printed", "unstable"))
	case after == before:
		outs = append(outs, sx.L("printed", "same"))
	case tokensWithin(after, before):
		// nothing the request did not write: arguments moved or dropped (finding F08a)
		outs = append(outs, sx.L("printed", "changed"))
	default:
		outs = append(outs, sx.L("printed", "rewritten"))
	}
	return outs
}

var printedTokRe = regexp.MustCompile(`[A-Za-z0-9_$.+-]+|"(?:[^"\\]|\\.)*"|[^\s]`)

// tokensWithin: every token of a occurs in b at least as often
func tokensWithin(a, b string) bool {
	cnt := map[string]int{}
	for _, t := range printedTokRe.FindAllString(b, -1) {
		cnt[t]++
	}
	for _, t := range printedTokRe.FindAllString(a, -1) {
		if t == "," {
			continue
		}
		if cnt[t] == 0 {
			return false
		}
		cnt[t]--
	}
	return true
}

// jsonValue builds the Go value a JSON decoder would hand over for a variable.
func jsonValue(v sx.S) interface{} {
	if a, ok := v.(string); ok && a == "null" {
		return nil
	}
	l := sx.List(v)
	switch sx.Head(v) {
	case "i":
		return sx.Int(l[1])
	case "s":
		return "s" + l[1].(string)
	case "b":
		return l[1].(string) != "0"
	case "e":
		return ggql.Symbol("E" + l[1].(string))
	case "l":
		out := []interface{}{}
		for _, x := range l[1:] {
			out = append(out, jsonValue(x))
		}
		return out
	case "o":
		out := map[string]interface{}{}
		for _, kv := range l[1:] {
			kvl := sx.List(kv)
			out["a"+kvl[0].(string)] = jsonValue(kvl[1])
		}
		return out
	}
	panic("bad json value")
}
