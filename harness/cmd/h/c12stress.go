package main

// C12: free-running concurrent requests on one cold root, meant to be built with -race.
// Every round builds a fresh root (nothing lazily registered yet), releases N goroutines at once,
// each with a request from a fixed pool (reflection fields and methods, unions, interfaces, input
// objects with defaults, variables, fragments, introspection, interface resolvers), and compares
// every response with the response the same request gets alone on its own fresh root.

import (
	"encoding/json"
	"fmt"
	"math/rand"
	"os"
	"runtime"
	"strconv"
	"strings"
	"sync"
	"time"

	"github.com/uhn/ggql/pkg/ggql"

	"verifharness/sx"
)

const c12SDL = `
type Query {
  cats: [Cat]
  pets: [Pet]
  named: [Named]
  first: Cat
  echo(s: String, b: Boolean): String
  page(p: Page = {size: 2, tags: ["a", "b"]}): String
  res: Res
  meet: String
}
interface Named { name: String }
type Cat implements Named { name: String nick: String age: Int lives(extra: Int): Int friend: Cat ghost: String }
type Dog implements Named { name: String tricks: [String] }
union Pet = Dog | Cat
input Page { size: Int = 10, offset: Int = 0, tags: [String] = ["x"], inner: Inner = {k: "v"} }
input Inner { k: String = "d", n: Int = 7 }
type Res { a: Int b(x: Int = 3): Int list: [Res] }
`

type c12Schema struct{ Query *c12Query }
type c12Query struct {
	Cats  []*c12Cat
	Pets  []interface{}
	Named []interface{}
	First *c12Cat
	Res   *c12Res
	meet  chan struct{}
}

// Meet pairs two requests that are inside the method at the same time: two concurrent calls both
// answer "met"; a call nobody joins within a second and a half answers "alone". If the library
// serialised calls of one field, concurrent callers could never meet.
func (q *c12Query) Meet() string {
	select {
	case q.meet <- struct{}{}:
		return "met"
	case <-q.meet:
		return "met"
	case <-time.After(1500 * time.Millisecond):
		return "alone"
	}
}

// c12Pair runs two {meet} requests at once on a root
func c12Pair(root *ggql.Root) [2]string {
	var out [2]string
	var wg sync.WaitGroup
	for i := 0; i < 2; i++ {
		wg.Add(1)
		go func(i int) {
			defer wg.Done()
			out[i] = c12Run(root, c12Req{q: `{meet}`})
		}(i)
	}
	wg.Wait()
	return out
}

const c12Met = `{"data":{"meet":"met"}}`

func (q *c12Query) Echo(s string, b bool) string { return fmt.Sprintf("%s/%v", s, b) }
func (q *c12Query) Page(p map[string]interface{}) string {
	b, _ := json.Marshal(p)
	return string(b)
}

type c12Cat struct {
	Name   string
	Nick   string
	Age    int32
	Friend *c12Cat
}

func (c *c12Cat) Lives(extra int32) int32 { return 9 + extra }

type c12Dog struct {
	Name   string
	Tricks []string
}

// an object resolving itself, next to the reflected ones
type c12Res struct{ depth int }

func (r *c12Res) Resolve(f *ggql.Field, args map[string]interface{}) (interface{}, error) {
	switch f.Name {
	case "a":
		return r.depth, nil
	case "b":
		x, _ := args["x"].(int32)
		return int(x) + r.depth, nil
	case "list":
		if r.depth > 2 {
			return nil, nil
		}
		return []interface{}{&c12Res{r.depth + 1}, &c12Res{r.depth + 2}}, nil
	}
	return nil, fmt.Errorf("no field %s", f.Name)
}

func c12Root() *ggql.Root {
	tom := &c12Cat{Name: "Tom", Nick: "T", Age: 3}
	kit := &c12Cat{Name: "Kit", Nick: "K", Age: 1, Friend: tom}
	rex := &c12Dog{Name: "Rex", Tricks: []string{"sit", "roll"}}
	q := &c12Query{Cats: []*c12Cat{tom, kit}, Pets: []interface{}{tom, rex, kit}, Named: []interface{}{rex, tom}, First: kit, Res: &c12Res{}, meet: make(chan struct{})}
	root := ggql.NewRoot(&c12Schema{Query: q})
	if err := root.ParseString(c12SDL); err != nil {
		panic(err)
	}
	// members of unions and interfaces are registered, as the documentation requires
	_ = root.RegisterType(&c12Cat{}, "Cat")
	_ = root.RegisterType(&c12Dog{}, "Dog")
	return root
}

type c12Req struct {
	q    string
	vars map[string]interface{}
}

var c12Pool = []c12Req{
	{`{cats{name nick age}}`, nil},
	{`{cats{lives(extra: 1) friend{name lives(extra: 2)}}}`, nil},
	{`{first{name friend{nick}} cats{age}}`, nil},
	{`{pets{... on Cat{name age} ... on Dog{name tricks} __typename}}`, nil},
	{`{named{name __typename ...D}} fragment D on Dog {tricks}`, nil},
	{`query($s: String, $b: Boolean){echo(s: $s, b: $b)}`, map[string]interface{}{"s": "x", "b": true}},
	{`{echo(s: "lit", b: false)}`, nil},
	{`{page}`, nil},
	{`{page(p: {size: 5})}`, nil},
	{`{page(p: {inner: {n: 1}})}`, nil},
	{`query($p: Page){page(p: $p)}`, map[string]interface{}{"p": map[string]interface{}{"offset": 4}}},
	{`query($p: Page){page(p: $p)}`, map[string]interface{}{"p": map[string]interface{}{"inner": map[string]interface{}{"k": "w"}}}},
	{`{res{a b b3: b(x: 4) list{a list{b}}}}`, nil},
	{`{__schema{types{name kind fields{name args{name defaultValue} type{name kind ofType{name}}}} directives{name args{name}}}}`, nil},
	{`{__type(name: "Cat"){name fields{name type{name}} interfaces{name}} u: __type(name: "Pet"){possibleTypes{name}} n: __type(name: "Named"){possibleTypes{name}}}`, nil},
	{`{__type(name: "Page"){inputFields{name defaultValue}} i: __type(name: "Inner"){inputFields{name defaultValue}}}`, nil},
	{`{cats{nope}}`, nil},
	{`{cats{name ghost}}`, nil}, // a field of the schema the Go type has no field or method for
	{`{cats{name @skip(if: true) nick @include(if: false) age}}`, nil},
	{`{first{lives(extra: "bad")}}`, nil},
	{`{cats{... @include(if: true) {name} ... on Cat @skip(if: false) {nick}} first @include(if: true) {age}}`, nil},
}

const c12NoAnswer = "no answer within 4s (deadlock)"
const c12VarsChanged = "the variables of the caller were changed by the request: "

// c12Run answers one request; a request that does not come back is reported, not waited for
func c12Run(root *ggql.Root, r c12Req) string {
	ch := make(chan string, 1)
	go func() { ch <- c12Run1(root, r) }()
	select {
	case s := <-ch:
		return s
	case <-time.After(4 * time.Second):
		return c12NoAnswer
	}
}

func c12Run1(root *ggql.Root, r c12Req) (out string) {
	defer func() {
		if p := recover(); p != nil {
			out = fmt.Sprint("panic: ", p)
		}
	}()
	// variables are the caller's, and one caller may hand the same map to every request it makes: the
	// library reads it and leaves it as it is
	vars := r.vars
	var before []byte
	if vars != nil {
		before, _ = json.Marshal(vars)
	}
	res := root.ResolveString(r.q, "", vars)
	if vars != nil {
		if after, _ := json.Marshal(vars); string(after) != string(before) {
			return c12VarsChanged + string(before) + " -> " + string(after)
		}
	}
	b, err := json.Marshal(res)
	if err != nil {
		return "marshal: " + err.Error()
	}
	return string(b)
}

func stress12(dur time.Duration, workers int, seed int64, maxRounds int64) int {
	ggql.Sort = true // object constants are printed in key order (otherwise map order, which differs from print to print)
	// the baseline: every request alone on its own cold root
	base := make([]string, len(c12Pool))
	for i, r := range c12Pool {
		base[i] = c12Run(c12Root(), r)
	}
	rnd := rand.New(rand.NewSource(seed))
	deadline := time.Now().Add(dur)
	var rounds, reqs int64
	for time.Now().Before(deadline) && rounds < maxRounds {
		rounds++
		root := c12Root()
		n := 2 + rnd.Intn(workers)
		picks := make([]int, n)
		for i := range picks {
			picks[i] = rnd.Intn(len(c12Pool))
		}
		outs := make([]string, n)
		start := make(chan struct{})
		var wg sync.WaitGroup
		for i := 0; i < n; i++ {
			wg.Add(1)
			go func(i int) {
				defer wg.Done()
				<-start
				outs[i] = c12Run(root, c12Pool[picks[i]])
			}(i)
		}
		done := make(chan struct{})
		go func() { wg.Wait(); close(done) }()
		close(start)
		select {
		case <-done:
		case <-time.After(20 * time.Second):
			fmt.Printf("stress12: FAIL deadlock: a round of %d concurrent requests did not finish in 20s (seed %d round %d, requests %v)\n", n, seed, rounds, picks)
			return 1
		}
		if rounds%50 == 1 {
			if p := c12Pair(root); p[0] != c12Met || p[1] != c12Met {
				fmt.Printf("stress12: FAIL two concurrent requests could not be inside the same method at the same time (%s / %s): calls of one field are serialised\n", p[0], p[1])
				return 1
			}
		}
		// a second, warm wave on the same root
		for i := 0; i < n; i++ {
			reqs++
			if outs[i] == c12NoAnswer || base[picks[i]] == c12NoAnswer {
				fmt.Printf("stress12: FAIL deadlock: request %d (%s) did not come back (seed %d round %d)\n", picks[i], c12Pool[picks[i]].q, seed, rounds)
				return 1
			}
			if strings.HasPrefix(outs[i], c12VarsChanged) || strings.HasPrefix(base[picks[i]], c12VarsChanged) {
				fmt.Printf("stress12: FAIL request %d (%s): %s %s\n", picks[i], c12Pool[picks[i]].q, outs[i], base[picks[i]])
				return 1
			}
			if outs[i] != base[picks[i]] {
				fmt.Printf("stress12: FAIL request %d (%s) answered differently among %d concurrent requests on a cold root than alone (seed %d round %d)\n concurrent: %s\n alone:      %s\n",
					picks[i], c12Pool[picks[i]].q, n, seed, rounds, c12Diff(outs[i], base[picks[i]]), c12Diff(base[picks[i]], outs[i]))
				return 1
			}
		}
	}
	fmt.Printf("stress12: ok rounds=%d requests=%d pool=%d\n", rounds, reqs, len(c12Pool))
	return 0
}

func stress12Main(args []string) {
	dur := 5 * time.Second
	workers := 16
	seed := int64(1)
	maxRounds := int64(2000)
	for i := 0; i+1 < len(args); i += 2 {
		switch args[i] {
		case "-dur":
			dur, _ = time.ParseDuration(args[i+1])
		case "-workers":
			workers, _ = strconv.Atoi(args[i+1])
		case "-ops":
			maxRounds, _ = strconv.ParseInt(args[i+1], 10, 64)
		case "-seed":
			seed, _ = strconv.ParseInt(args[i+1], 10, 64)
		}
	}
	// a run that does not come back (every worker blocked in the library) is a deadlock, not a hang of the check
	go func() {
		time.Sleep(dur + 45*time.Second)
		fmt.Printf("stress12: FAIL deadlock: the run did not finish within %v + 45s (workers blocked in the library)\n", dur)
		os.Exit(1)
	}()
	os.Exit(stress12(dur, workers, seed, maxRounds))
}

// the neighbourhood of the first difference
func c12Diff(a, b string) string {
	i := 0
	for i < len(a) && i < len(b) && a[i] == b[i] {
		i++
	}
	lo, hi := i-60, i+120
	if lo < 0 {
		lo = 0
	}
	if hi > len(a) {
		hi = len(a)
	}
	return a[lo:hi]
}

// ---- the case-level part of C12: one round per case, with the first-use windows widened by
// pauses at the verif yield points (before every per-object / per-field mutex) ----

// input: (round (reqs i...) (jitter seed))
// observed: (round same|differs...) | (deadlock)
func c12Exec(input sx.S) (obs sx.S) {
	l := sx.List(input)
	var picks []int
	for _, x := range sx.List(l[1])[1:] {
		picks = append(picks, sx.Int(x)%len(c12Pool))
	}
	seed := int64(sx.Int(sx.List(l[2])[1]))
	ggql.Sort = true
	defer func() { ggql.Sort = false }()
	c12BaseOnce.Do(func() {
		c12Base = make([]string, len(c12Pool))
		for i, r := range c12Pool {
			c12Base[i] = c12Run(c12Root(), r)
		}
	})
	var jmu sync.Mutex
	jr := rand.New(rand.NewSource(seed))
	ggql.VerifYield = func(site string) {
		jmu.Lock()
		x := jr.Intn(8)
		jmu.Unlock()
		switch {
		case x < 3:
			runtime.Gosched()
		case x < 5:
			time.Sleep(time.Duration(1+x) * 20 * time.Microsecond)
		}
	}
	defer func() { ggql.VerifYield = nil }()
	root := c12Root()
	n := len(picks)
	outs := make([]string, n)
	start := make(chan struct{})
	var wg sync.WaitGroup
	for i := 0; i < n; i++ {
		wg.Add(1)
		go func(i int) {
			defer wg.Done()
			<-start
			outs[i] = c12Run(root, c12Pool[picks[i]])
		}(i)
	}
	done := make(chan struct{})
	go func() { wg.Wait(); close(done) }()
	close(start)
	select {
	case <-done:
	case <-time.After(20 * time.Second):
		return sx.L("deadlock")
	}
	if seed%4 == 0 { // two requests that have to be inside one method at the same time
		if p := c12Pair(root); p[0] != c12Met || p[1] != c12Met {
			return sx.L("serialised", sx.Hex(p[0]+" "+p[1]))
		}
	}
	out := []sx.S{"round"}
	for i := range outs {
		if outs[i] == c12NoAnswer || c12Base[picks[i]] == c12NoAnswer {
			return sx.L("deadlock")
		}
		if outs[i] == c12Base[picks[i]] && !strings.HasPrefix(outs[i], c12VarsChanged) {
			out = append(out, "same")
		} else {
			out = append(out, sx.L("differs", sx.Hex(c12Diff(outs[i], c12Base[picks[i]]))))
		}
	}
	return out
}

var c12BaseOnce sync.Once
var c12Base []string

func c12Valid(input sx.S) bool {
	l := sx.List(input)
	return len(l) == 3 && sx.Head(input) == "round" && sx.Head(l[1]) == "reqs" && len(sx.List(l[1])) >= 2 && sx.Head(l[2]) == "jitter"
}

func c12Gen(r *rand.Rand, tier string) []Case {
	n := 150
	if tier == "thorough" {
		n = 3000
	}
	var out []Case
	for i := 0; i < n; i++ {
		k := 2 + r.Intn(14)
		if tier == "thorough" && r.Intn(4) == 0 {
			k = 16 + r.Intn(48)
		}
		reqs := []sx.S{"reqs"}
		human := ""
		for j := 0; j < k; j++ {
			p := r.Intn(len(c12Pool))
			reqs = append(reqs, sx.A(p))
			human += c12Pool[p].q + "\n"
		}
		out = append(out, Case{ID: fmt.Sprintf("r%d", i), Input: sx.L("round", reqs, sx.L("jitter", sx.A(r.Intn(1000000)))),
			Tags: []string{"nontrivial", "cold-root"}, Human: human})
	}
	return out
}

func init() {
	props["C12"] = &Prop{Gen: c12Gen, Exec: c12Exec, Valid: c12Valid}
}
