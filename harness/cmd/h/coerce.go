package main

// C04 / C05 leaf sweeps: input and output coercion of every scalar, enum, input object and wrapper
// on a zoo of Go values (every integer kind at the boundaries, floats incl. NaN/Inf/overflow,
// numeric and non-numeric strings, symbols, lists, maps, times, foreign values), called directly on the
// library's type objects.

import (
	"fmt"
	"math"
	"math/rand"
	"reflect"
	"regexp"
	"sort"
	"strconv"
	"strings"
	"time"

	"github.com/uhn/ggql/pkg/ggql"

	"verifharness/sx"
)

const coerceSDL = `
type Query { x: Int }
enum T30 { E1 E2 E3 }
input T41 { a1: Int a2: T30 a3: String = "s1" }
input T40 { a1: Int! a2: String = "s1" a3: [Int!] a4: T41 a5: Boolean }
`

var floatZoo = []float64{0, 1, -1, 3.5, -0.25, 2147483647, 2147483648, -2147483648, -2147483649, 4294967297,
	9007199254740993, 9.3e18, -9.3e18, 1e39, -1e39, 3.4e38, 1e-50, math.NaN(), math.Inf(1), math.Inf(-1), 16777217}

var stringZoo = []string{"abc", "3", "-7", "3.5", "true", "T", "2147483648", "-2147483649", "9999999999999999999",
	"1e400", "NaN", "Inf", "2021-01-02T03:04:05Z", "", " 3", "0x10", "1e3", "false", "3.0", "E1"}

var intZoo = []int64{0, 1, -1, 3, 127, 128, 255, 32767, 65535, 2147483647, 2147483648, -2147483648, -2147483649,
	4294967295, 4294967296, 4294967297, 9007199254740993, 9223372036854775807, -9223372036854775808}

var kindNames = []string{"int", "int8", "int16", "int32", "int64", "uint", "uint8", "uint16", "uint32", "uint64"}

func fitsKind(k string, z int64) bool {
	switch k {
	case "int8":
		return z >= -128 && z <= 127
	case "int16":
		return z >= -32768 && z <= 32767
	case "int32":
		return z >= math.MinInt32 && z <= math.MaxInt32
	case "uint8":
		return z >= 0 && z <= 255
	case "uint16":
		return z >= 0 && z <= 65535
	case "uint32":
		return z >= 0 && z <= math.MaxUint32
	case "uint", "uint64":
		return z >= 0
	}
	return true
}

func goInt(k string, z int64) interface{} {
	switch k {
	case "int":
		return int(z)
	case "int8":
		return int8(z)
	case "int16":
		return int16(z)
	case "int32":
		return int32(z)
	case "int64":
		return z
	case "uint":
		return uint(z)
	case "uint8":
		return uint8(z)
	case "uint16":
		return uint16(z)
	case "uint32":
		return uint32(z)
	case "uint64":
		return uint64(z)
	}
	return nil
}

// fltSexp describes a float to the model: (f id w32 finite trunc integral fits32)
func fltSexp(id int, v float64, w32 bool) sx.S {
	finite := !math.IsNaN(v) && !math.IsInf(v, 0)
	trunc := "0"
	integral := false
	if finite {
		t := math.Trunc(v)
		integral = t == v
		// exact decimal of the truncated value
		trunc = strconv.FormatFloat(t, 'f', 0, 64)
	}
	fits := !math.IsInf(float64(float32(v)), 0) && !math.IsNaN(v)
	return sx.L("f", sx.A(id), sx.A(w32), sx.A(finite), trunc, sx.A(integral), sx.A(fits))
}

func floatByID(id int) (float64, bool) { // (value, is float32)
	switch {
	case id >= 2000: // parsed from string id-2000
		f, _ := strconv.ParseFloat(stringZoo[id-2000], 64)
		return f, false
	case id >= 1000:
		return float64(float32(floatZoo[id-1000])), true
	}
	return floatZoo[id], false
}

func strSexp(i int) sx.S {
	s := stringZoo[i]
	var pi, pf, pb, pt sx.S = "-", "-", "-", "-"
	if z, err := strconv.ParseInt(s, 10, 64); err == nil {
		pi = strconv.FormatInt(z, 10)
	}
	if f, err := strconv.ParseFloat(s, 64); err == nil {
		pf = fltSexp(2000+i, f, false)
	}
	if b, err := strconv.ParseBool(s); err == nil {
		pb = sx.A(b)
	}
	if _, err := time.Parse(time.RFC3339Nano, s); err == nil {
		pt = sx.A(i)
	}
	return sx.L("s", sx.A(i), pi, pf, pb, pt)
}

var timeZoo = []time.Time{time.Date(2020, 2, 3, 4, 5, 6, 7, time.UTC), time.Date(1999, 12, 31, 23, 59, 59, 0, time.FixedZone("x", 3600)),
	// within the years 0..9999 in UTC, next to the boundary in another zone
	time.Date(9999, 12, 31, 23, 0, 0, 0, time.FixedZone("e", 3600)),
	time.Date(0, 1, 1, 0, 30, 0, 0, time.FixedZone("w", -3600)),
	time.Date(10000, 1, 1, 0, 30, 0, 0, time.FixedZone("e", 3600)), // the local year is 10000, the instant lies in 9999
	time.Date(-1, 12, 31, 23, 30, 0, 0, time.FixedZone("w", -3600)),
}

// timeOutZoo: instants whose year in UTC is outside 0..9999 (ids 100..): RFC 3339 cannot write them
var timeOutZoo = []time.Time{
	time.Date(9999, 12, 31, 22, 0, 0, 0, time.FixedZone("w", -7*3600)), // the local year is 9999, the instant lies in 10000
	time.Date(0, 1, 1, 0, 0, 0, 0, time.FixedZone("e", 3600)),
	time.Date(10000, 1, 1, 0, 0, 0, 0, time.UTC),
	time.Date(-1, 6, 1, 0, 0, 0, 0, time.UTC),
}

func timeByID(id int) time.Time {
	if id >= 100 {
		return timeOutZoo[id-100]
	}
	return timeZoo[id]
}

type foreign struct{ X int }

// goValue builds the Go value described by a value s-expression.
func coerceGoValue(v sx.S) interface{} {
	if a, ok := v.(string); ok {
		switch a {
		case "nil":
			return nil
		case "other":
			return foreign{1}
		}
		panic("bad cv " + a)
	}
	l := sx.List(v)
	switch sx.Head(v) {
	case "i":
		z, _ := strconv.ParseInt(l[2].(string), 10, 64)
		if l[1].(string) == "uint64" || l[1].(string) == "uint" {
			u, _ := strconv.ParseUint(l[2].(string), 10, 64)
			if l[1].(string) == "uint" {
				return uint(u)
			}
			return u
		}
		return goInt(l[1].(string), z)
	case "f":
		f, w32 := floatByID(sx.Int(l[1]))
		if w32 {
			return float32(f)
		}
		return f
	case "s":
		return stringZoo[sx.Int(l[1])]
	case "b":
		return l[1].(string) != "0"
	case "sym":
		return ggql.Symbol("E" + l[1].(string))
	case "l":
		out := []interface{}{}
		for _, x := range l[1:] {
			out = append(out, coerceGoValue(x))
		}
		return out
	case "m":
		out := map[string]interface{}{}
		for _, kv := range l[1:] {
			kvl := sx.List(kv)
			out["a"+kvl[0].(string)] = coerceGoValue(kvl[1])
		}
		return out
	case "time":
		return timeByID(sx.Int(l[1]))
	}
	panic("bad cv")
}

func coerceType(root *ggql.Root, t sx.S) ggql.Type {
	l := sx.List(t)
	switch sx.Head(t) {
	case "sc":
		return root.GetType(l[1].(string))
	case "enum":
		return root.GetType("T30")
	case "input":
		return root.GetType("T" + l[1].(string))
	case "l":
		return &ggql.List{Base: coerceType(root, l[1])}
	case "nn":
		return &ggql.NonNull{Base: coerceType(root, l[1])}
	}
	panic("bad type")
}

// canonOut describes a coerced value relative to the value it was computed from.
func floatTime(tv float64) time.Time {
	// the instant tv seconds after the epoch (no detour through int64 nanoseconds, which wraps around
	// beyond the year 2262)
	secs := int64(tv)
	return time.Unix(secs, 0).In(time.UTC).Add(time.Duration((tv - float64(secs)) * float64(time.Second)))
}

var wantTime bool // the type being coerced to is Time (a time text may coincide with the input string)

func canonOut(out interface{}, in sx.S) sx.S {
	inHead := sx.Head(in)
	var inl []sx.S
	if inHead != "" {
		inl = sx.List(in)
	}
	switch t := out.(type) {
	case nil:
		return "nil"
	case int32:
		return sx.L("i", "int32", sx.A(int(t)))
	case int64:
		return sx.L("i", "int64", strconv.FormatInt(t, 10))
	case int:
		return sx.L("i", "int", strconv.Itoa(t))
	case bool:
		return sx.L("b", sx.A(t))
	case ggql.Symbol:
		if n, ok := nameID(string(t), "E"); ok {
			return sx.L("sym", sx.A(n))
		}
		return sx.L("symx", sx.Hex(string(t)))
	case float32, float64:
		var ov float64
		o32 := false
		if f, ok := t.(float32); ok {
			ov, o32 = float64(f), true
		} else {
			ov = t.(float64)
		}
		same := func(a, b float64) bool { return a == b || (math.IsNaN(a) && math.IsNaN(b)) }
		var srcIDs []int
		switch inHead {
		case "f":
			srcIDs = append(srcIDs, sx.Int(inl[1]))
		case "s":
			if sx.Head(inl[3]) == "f" {
				srcIDs = append(srcIDs, sx.Int(sx.List(inl[3])[1]))
			}
		}
		for _, id := range srcIDs {
			sv, s32 := floatByID(id)
			switch {
			case o32 == s32 && same(ov, sv):
				return sx.L("fin", sx.A(id))
			case o32 && !s32 && same(ov, float64(float32(sv))):
				return sx.L("f32of", sx.A(id))
			case !o32 && s32 && same(ov, sv):
				return sx.L("f64of", sx.A(id))
			}
		}
		if inHead == "i" {
			z, _ := strconv.ParseInt(inl[2].(string), 10, 64)
			var zf float64
			if inl[1].(string) == "uint64" || inl[1].(string) == "uint" {
				u, _ := strconv.ParseUint(inl[2].(string), 10, 64)
				zf = float64(u)
				if o32 {
					zf = float64(float32(u))
				}
			} else {
				zf = float64(z)
				if o32 {
					zf = float64(float32(z))
				}
			}
			if same(ov, zf) {
				if o32 {
					return sx.L("f32ofint", inl[2])
				}
				return sx.L("f64ofint", inl[2])
			}
		}
		return sx.L("fbad", sx.Hex(strconv.FormatFloat(ov, 'g', -1, 64)))
	case string:
		switch inHead {
		case "s":
			if t == stringZoo[sx.Int(inl[1])] && !wantTime {
				return in
			}
			if sx.Head(inl[5]) == "" && inl[5].(string) != "-" {
				if pt, err := time.Parse(time.RFC3339Nano, stringZoo[sx.Int(inl[1])]); err == nil && t == pt.In(time.UTC).Format(time.RFC3339Nano) {
					return sx.L("timetext", sx.L("tp", inl[1]))
				}
			}
		case "i":
			if t == inl[2].(string) {
				return sx.L("soi", inl[2])
			}
			if z, err := strconv.ParseInt(inl[2].(string), 10, 64); err == nil && t == time.Unix(z, 0).In(time.UTC).Format(time.RFC3339Nano) {
				return sx.L("timetext", sx.L("secs", inl[2]))
			}
		case "b":
			if t == "true" || t == "false" {
				return sx.L("sob", sx.A(t == "true"))
			}
		case "f":
			sv, s32 := floatByID(sx.Int(inl[1]))
			if wantTime && !s32 && t == floatTime(sv).In(time.UTC).Format(time.RFC3339Nano) {
				return sx.L("timetext", sx.L("tf", inl[1]))
			}
			bits := 64
			if s32 {
				bits = 32
			}
			if t == strconv.FormatFloat(sv, 'g', -1, bits) {
				return sx.L("sof", inl[1])
			}
		case "sym":
			if t == "E"+inl[1].(string) {
				return sx.L("symname", inl[1])
			}
		case "time":
			if t == timeByID(sx.Int(inl[1])).In(time.UTC).Format(time.RFC3339Nano) {
				return sx.L("timetext", sx.L("tin", inl[1]))
			}
		}
		return sx.L("sbad", sx.Hex(t))
	case time.Time:
		switch inHead {
		case "time":
			if t.Equal(timeByID(sx.Int(inl[1]))) {
				return sx.L("timev", sx.L("tin", inl[1]))
			}
		case "i":
			if z, err := strconv.ParseInt(inl[2].(string), 10, 64); err == nil && t.Equal(time.Unix(z, 0)) {
				return sx.L("timev", sx.L("secs", inl[2]))
			}
		case "s":
			if pt, err := time.Parse(time.RFC3339Nano, stringZoo[sx.Int(inl[1])]); err == nil && t.Equal(pt) {
				return sx.L("timev", sx.L("tp", inl[1]))
			}
		case "f":
			if sv, s32 := floatByID(sx.Int(inl[1])); !s32 && t.Equal(floatTime(sv)) {
				return sx.L("timev", sx.L("tf", inl[1]))
			}
		}
		return sx.L("tbad")
	case []interface{}:
		res := []sx.S{"l"}
		for i, x := range t {
			var ctx sx.S = "nil"
			if inHead == "l" && i+1 < len(inl) {
				ctx = inl[i+1]
			}
			res = append(res, canonOut(x, ctx))
		}
		return res
	case map[string]interface{}:
		keys := []int{}
		for k := range t {
			n, _ := nameID(k, "a")
			keys = append(keys, n)
		}
		sortInts(keys)
		res := []sx.S{"m"}
		for _, k := range keys {
			var ctx sx.S = "nil"
			if inHead == "m" {
				for _, kv := range inl[1:] {
					if sx.Int(sx.List(kv)[0]) == k {
						ctx = sx.List(kv)[1]
					}
				}
			}
			val := t["a"+strconv.Itoa(k)]
			if s, ok := val.(string); ok && ctx == sx.S("nil") && s == "s1" {
				res = append(res, sx.L(sx.A(k), sx.L("dflt"))) // the declared default of T40.a2
				continue
			}
			res = append(res, sx.L(sx.A(k), canonOut(val, ctx)))
		}
		return res
	}
	return sx.L("goval", sx.Hex(fmt.Sprintf("%T", out)))
}

func sortInts(a []int) {
	for i := 1; i < len(a); i++ {
		for j := i; j > 0 && a[j-1] > a[j]; j-- {
			a[j-1], a[j] = a[j], a[j-1]
		}
	}
}

func coerceExec(input sx.S) (obs sx.S) {
	defer func() {
		if r := recover(); r != nil {
			obs = sx.L("panic", sx.Hex(fmt.Sprint(r)))
		}
	}()
	l := sx.List(input)
	if l[1].(string) == "outx" {
		return coerceSliceExec(l)
	}
	if strings.HasPrefix(l[1].(string), "req") {
		return coerceReqExec(l)
	}
	root := ggql.NewRoot(nil)
	if err := root.ParseString(coerceSDL); err != nil {
		return sx.L("schema-error", sx.Hex(err.Error()))
	}
	bound := l[1].(string) == "inb"
	if bound {
		// the input types are bound to Go structs: the coerced object arrives as a struct value
		if err := root.RegisterType(&coT41{}, "T41"); err != nil {
			return sx.L("register-error", sx.Hex(err.Error()))
		}
		if err := root.RegisterType(&coT40{}, "T40"); err != nil {
			return sx.L("register-error", sx.Hex(err.Error()))
		}
	}
	t := coerceType(root, l[2])
	v := coerceGoValue(l[3])
	wantTime = sx.Head(l[2]) == "sc" && sx.List(l[2])[1].(string) == "Time"
	var out interface{}
	var err error
	if l[1].(string) == "in" || bound {
		ic, ok := t.(ggql.InCoercer)
		if !ok {
			return sx.L("not-a-coercer")
		}
		out, err = ic.CoerceIn(v)
	} else {
		oc, ok := t.(ggql.OutCoercer)
		if !ok {
			return sx.L("not-a-coercer")
		}
		out, err = oc.CoerceOut(v)
	}
	if bound && err == nil {
		out = coUnbind(out, l[3])
	}
	if err != nil {
		if l[1].(string) == "out" && out != nil {
			return sx.L("err-with-value", canonOut(out, l[3])) // the unconverted value leaks next to the error
		}
		return sx.L("err")
	}
	return sx.L("ok", canonOut(out, l[3]))
}

// coT40 / coT41: the Go structs the input types are bound to in the "inb" cases. Every field takes any
// value, so the struct holds exactly what coercion set (a field never set is nil).
type coT41 struct{ A1, A2, A3 interface{} }
type coT40 struct{ A1, A2, A3, A4, A5 interface{} }

// coUnbind writes a struct value back as the map it stands for. A struct cannot tell a key that was not
// given from a key given as null: a nil field is listed (as null) when the client wrote the key.
func coUnbind(out interface{}, in sx.S) interface{} {
	given := map[int]sx.S{}
	if sx.Head(in) == "m" {
		for _, kv := range sx.List(in)[1:] {
			given[sx.Int(sx.List(kv)[0])] = sx.List(kv)[1]
		}
	}
	fields := func(vals ...interface{}) interface{} {
		m := map[string]interface{}{}
		for i, x := range vals {
			ctx, has := given[i+1]
			if x == nil && !has {
				continue
			}
			if !has {
				ctx = "nil"
			}
			m["a"+strconv.Itoa(i+1)] = coUnbind(x, ctx)
		}
		return m
	}
	switch t := out.(type) {
	case *coT41:
		if t == nil {
			return nil
		}
		return fields(t.A1, t.A2, t.A3)
	case *coT40:
		if t == nil {
			return nil
		}
		return fields(t.A1, t.A2, t.A3, t.A4, t.A5)
	case []interface{}:
		res := make([]interface{}, len(t))
		for i, x := range t {
			var ctx sx.S = "nil"
			if sx.Head(in) == "l" && i+1 < len(sx.List(in)) {
				ctx = sx.List(in)[i+1]
			}
			res[i] = coUnbind(x, ctx)
		}
		return res
	}
	return out
}

// ---- C04 end to end: the value travels through a request (as a literal, or as the value of a
// variable) to the argument a resolver receives ----

const coerceReqSDL = `
enum T30 { E1 E2 E3 }
input T41 { a1: Int a2: T30 a3: String = "s1" }
input T40 { a1: Int! a2: String = "s1" a3: [Int!] a4: T41 a5: Boolean }
`

// sdlType: the type expression can be written in SDL (the coercion objects also nest NonNull in NonNull)
func sdlType(t sx.S) bool {
	switch sx.Head(t) {
	case "l":
		return sdlType(sx.List(t)[1])
	case "nn":
		in := sx.List(t)[1]
		return sx.Head(in) != "nn" && sdlType(in)
	}
	return true
}

func coerceTypeText(t sx.S) string {
	l := sx.List(t)
	switch sx.Head(t) {
	case "sc":
		return l[1].(string)
	case "enum":
		return "T30"
	case "input":
		return "T" + l[1].(string)
	case "l":
		return "[" + coerceTypeText(l[1]) + "]"
	case "nn":
		return coerceTypeText(l[1]) + "!"
	}
	panic("bad type")
}

// coerceLitText writes the value as a request literal when the request syntax can denote exactly
// this Go value (the reader yields int64, float64, string, bool, Symbol, nil, lists and objects)
func coerceLitText(v sx.S) (string, bool) {
	if a, ok := v.(string); ok {
		return "null", a == "nil"
	}
	l := sx.List(v)
	switch sx.Head(v) {
	case "i":
		return l[2].(string), l[1].(string) == "int64"
	case "f":
		f, w32 := floatByID(sx.Int(l[1]))
		if w32 || math.IsNaN(f) || math.IsInf(f, 0) {
			return "", false
		}
		return strconv.FormatFloat(f, 'e', -1, 64), true
	case "s":
		t := stringZoo[sx.Int(l[1])]
		if strings.ContainsAny(t, "\"\\\n") {
			return "", false
		}
		return `"` + t + `"`, true
	case "b":
		if l[1].(string) != "0" {
			return "true", true
		}
		return "false", true
	case "sym":
		return "E" + l[1].(string), true
	case "l":
		parts := []string{}
		for _, x := range l[1:] {
			t, ok := coerceLitText(x)
			if !ok {
				return "", false
			}
			parts = append(parts, t)
		}
		return "[" + strings.Join(parts, ", ") + "]", true
	case "m":
		parts := []string{}
		for _, kv := range l[1:] {
			kvl := sx.List(kv)
			t, ok := coerceLitText(kvl[1])
			if !ok {
				return "", false
			}
			parts = append(parts, "a"+kvl[0].(string)+": "+t)
		}
		return "{" + strings.Join(parts, ", ") + "}", true
	}
	return "", false
}

// decoyDefault: a default of the right type that none of the zoo values coerces to
func decoyDefault(t sx.S) string {
	l := sx.List(t)
	switch sx.Head(t) {
	case "nn":
		return decoyDefault(l[1])
	case "l":
		return "[]"
	case "enum":
		return "E2"
	case "input":
		if l[1].(string) == "40" {
			return "{a1: 77}"
		}
		return "{a1: 77}"
	case "sc":
		switch l[1].(string) {
		case "Int", "Int64":
			return "77"
		case "Float", "Float64":
			return "77.5"
		case "Boolean":
			return "true"
		case "Time":
			return `"2001-02-03T04:05:06Z"`
		}
	}
	return `"decoy"`
}

type reqRoot struct {
	called bool
	arg    interface{}
}

func (r *reqRoot) Resolve(f *ggql.Field, args map[string]interface{}) (interface{}, error) {
	switch f.Name {
	case "query":
		return r, nil
	case "f":
		r.called = true
		r.arg = args["a"]
		return 1, nil
	case "g":
		return 1, nil
	}
	return nil, nil
}

// siblingType: the same type expression with every leaf scalar replaced by one that takes much of the same
// input but delivers another Go value
var siblingRe = regexp.MustCompile(`[A-Za-z0-9_]+`)

func siblingType(tt string) string {
	return siblingRe.ReplaceAllStringFunc(tt, func(n string) string {
		switch n {
		case "Float64":
			return "Float"
		case "Float":
			return "Float64"
		case "String":
			return "ID"
		case "ID":
			return "String"
		case "Int":
			return "Float"
		case "Int64":
			return "Float64"
		}
		return n
	})
}

func sortedTokens(s string) string {
	var toks []string
	for _, t := range c03TokRe.FindAllString(s, -1) {
		if strings.TrimSpace(t) != "" && t != "," {
			toks = append(toks, t)
		}
	}
	sort.Strings(toks)
	return strings.Join(toks, " ")
}

func coerceReqExec(l []sx.S) sx.S {
	rr := &reqRoot{}
	root := ggql.NewRoot(rr)
	tt := coerceTypeText(l[2])
	if err := root.ParseString(coerceReqSDL + "type Query { f(a: " + tt + "): Int g(b: " + siblingType(tt) + "): Int }\n"); err != nil {
		return sx.L("schema-error", sx.Hex(err.Error()))
	}
	wantTime = false
	for t := l[2]; ; t = sx.List(t)[1] {
		if h := sx.Head(t); h != "l" && h != "nn" {
			wantTime = h == "sc" && sx.List(t)[1].(string) == "Time"
			break
		}
	}
	var res map[string]interface{}
	switch dir := l[1].(string); dir {
	case "reql":
		lit, ok := coerceLitText(l[3])
		if !ok {
			return sx.L("not-a-literal")
		}
		res = root.ResolveString("{ f(a: "+lit+") }", "", nil)
	case "reqv":
		res = root.ResolveString("query($v: "+tt+") { f(a: $v) }", "", map[string]interface{}{"v": coerceGoValue(l[3])})
	case "reqw":
		// the same variable is used before at a position of a sibling type (ggql does not compare the
		// type of a variable with the position it is used at): f still gets what the client wrote
		res = root.ResolveString("query($v: "+tt+") { g(b: $v) f(a: $v) }", "", map[string]interface{}{"v": coerceGoValue(l[3])})
		if el, ok := res["errors"].([]interface{}); ok {
			var keep []interface{}
			for _, e := range el {
				if em, _ := e.(map[string]interface{}); em != nil {
					if p, _ := em["path"].([]interface{}); len(p) > 0 && p[0] == "g" {
						continue // what the other position refuses is its own matter
					}
				}
				keep = append(keep, e)
			}
			if len(keep) == 0 {
				delete(res, "errors")
			} else {
				res["errors"] = keep
			}
		}
	case "reqd0", "reqd1", "reqd2", "reqd3":
		// the value is the default of the second variable; the caller gives no value for it
		lit, ok := coerceLitText(l[3])
		if !ok {
			return sx.L("not-a-literal")
		}
		var vars map[string]interface{}
		switch dir {
		case "reqd1":
			vars = map[string]interface{}{}
		case "reqd2":
			vars = map[string]interface{}{"u": 3}
		case "reqd3":
			vars = map[string]interface{}{"u": 3, "v": nil}
		}
		res = root.ResolveString("query($u: Int, $v: "+tt+" = "+lit+") { f(a: $v) }", "", vars)
	case "reqp":
		// the caller's value takes precedence over the default of the variable
		res = root.ResolveString("query($u: Int = 1, $v: "+tt+" = "+decoyDefault(l[2])+") { f(a: $v) }", "",
			map[string]interface{}{"v": coerceGoValue(l[3])})
	case "reqrl", "reqr0", "reqr1", "reqr2", "reqr3":
		// C11: the request is parsed once and resolved twice; the second call hands over what the first
		// did and the printed form of the executable is what it was before the first call
		lit, ok := coerceLitText(l[3])
		if !ok {
			return sx.L("not-a-literal")
		}
		var vars map[string]interface{}
		switch dir {
		case "reqr1":
			vars = map[string]interface{}{}
		case "reqr2":
			vars = map[string]interface{}{"u": 3}
		case "reqr3":
			vars = map[string]interface{}{"u": 3, "v": nil}
		}
		text := "query($u: Int, $v: " + tt + " = " + lit + ") { f(a: $v) }"
		if dir == "reqrl" {
			text = "{ f(a: " + lit + ") }"
		}
		exe, err := root.ParseExecutableString(text)
		if err != nil || exe == nil {
			return sx.L("err")
		}
		before := exe.String()
		one := func() sx.S {
			rr.called, rr.arg = false, nil
			r1, err := root.ResolveExecutable(exe, "", vars)
			if _, has := r1["errors"]; has || err != nil {
				if rr.called {
					return sx.L("err-and-called")
				}
				return sx.L("err")
			}
			if !rr.called {
				return sx.L("no-error-no-call")
			}
			return sx.L("ok", canonOut(rr.arg, l[3]))
		}
		first := one()
		mid := exe.String()
		second := one()
		// object literals print their fields in no fixed order: the printed forms are compared as the
		// sorted lists of their tokens
		if after := exe.String(); sortedTokens(after) != sortedTokens(before) || sortedTokens(mid) != sortedTokens(before) {
			return sx.L("reuse-differs", "values-in-the-parsed-request-changed-by-resolving", sx.Hex(before), sx.Hex(after))
		}
		if sx.String(first) != sx.String(second) {
			return sx.L("reuse-differs", "second-call-differs-from-the-first", first, second)
		}
		return first
	default:
		return sx.L("bad-dir")
	}
	if _, has := res["errors"]; has {
		if rr.called {
			return sx.L("err-and-called")
		}
		return sx.L("err")
	}
	if !rr.called {
		return sx.L("no-error-no-call")
	}
	return sx.L("ok", canonOut(rr.arg, l[3]))
}

// coerceSliceExec: a list field of a scalar type whose resolver returns a slice of the values - a
// typed Go slice ([]float64, []int64, []string, ...) when they share a Go type - through the executor.
type sliceRoot struct{ v interface{} }

func (r *sliceRoot) Resolve(f *ggql.Field, _ map[string]interface{}) (interface{}, error) {
	switch f.Name {
	case "query":
		return r, nil
	case "l":
		return r.v, nil
	}
	return nil, nil
}

func coerceSliceExec(l []sx.S) sx.S {
	tn := coerceTypeText(l[2]) // a scalar, or a list of a scalar (the slice is then one level short)
	vals := sx.List(l[3])[1:]
	gos := make([]interface{}, len(vals))
	same := true
	for i, v := range vals {
		gos[i] = coerceGoValue(v)
		if gos[i] == nil || reflect.TypeOf(gos[i]) != reflect.TypeOf(gos[0]) {
			same = false
		}
	}
	var list interface{} = gos
	if same && len(gos) > 0 {
		sl := reflect.MakeSlice(reflect.SliceOf(reflect.TypeOf(gos[0])), 0, len(gos))
		for _, g := range gos {
			sl = reflect.Append(sl, reflect.ValueOf(g))
		}
		list = sl.Interface()
	}
	root := ggql.NewRoot(&sliceRoot{v: list})
	if err := root.ParseString("type Query { l: [" + tn + "] }"); err != nil {
		return sx.L("schema-error", sx.Hex(err.Error()))
	}
	wantTime = tn == "Time"
	res := root.ResolveString("{l}", "", nil)
	bad := map[int]bool{}
	if es, ok := res["errors"].([]interface{}); ok {
		for _, e := range es {
			em, _ := e.(map[string]interface{})
			p, _ := em["path"].([]interface{})
			if len(p) == 2 {
				if i, ok := p[1].(int); ok {
					bad[i] = true
					continue
				}
			}
			return sx.L("error-without-element-path", sx.Hex(fmt.Sprint(em["path"])))
		}
	}
	data, _ := res["data"].(map[string]interface{})
	outs, ok := data["l"].([]interface{})
	if !ok || len(outs) != len(vals) {
		return sx.L("not-a-list-of-that-length", sx.Hex(fmt.Sprintf("%T %v", data["l"], typedKind(list))))
	}
	out := []sx.S{"okx"}
	for i, o := range outs {
		switch {
		case bad[i] && o != nil:
			out = append(out, sx.L("err-with-value", canonOut(o, vals[i])))
		case bad[i]:
			out = append(out, sx.L("err"))
		default:
			out = append(out, sx.L("ok", canonOut(o, vals[i])))
		}
	}
	return out
}

func typedKind(v interface{}) string { return reflect.TypeOf(v).String() }

var scalarNames = []string{"Int", "Int64", "Float", "Float64", "String", "Boolean", "ID", "Time"}

func leafValues() []sx.S {
	var out []sx.S
	out = append(out, "nil", "other", sx.L("b", "1"), sx.L("b", "0"), sx.L("sym", "2"), sx.L("sym", "9"), sx.L("time", "0"), sx.L("time", "1"),
		sx.L("time", "2"), sx.L("time", "3"), sx.L("time", "4"), sx.L("time", "5"), sx.L("time", "100"), sx.L("time", "101"), sx.L("time", "102"), sx.L("time", "103"))
	for _, k := range kindNames {
		for _, z := range intZoo {
			if fitsKind(k, z) {
				out = append(out, sx.L("i", k, strconv.FormatInt(z, 10)))
			}
		}
	}
	out = append(out, sx.L("i", "uint64", "18446744073709551615"), sx.L("i", "uint", "18446744073709551615"))
	for i, f := range floatZoo {
		out = append(out, fltSexp(i, f, false))
		out = append(out, fltSexp(1000+i, float64(float32(f)), true))
	}
	for i := range stringZoo {
		out = append(out, strSexp(i))
	}
	return out
}

var input41 = "(input 41 (fields (f 1 (sc Int) -) (f 2 (enum (1 2 3)) -) (f 3 (sc String) dflt)))"
var input40 = "(input 40 (fields (f 1 (nn (sc Int)) -) (f 2 (sc String) dflt) (f 3 (l (nn (sc Int))) -) (f 4 " + input41 + " -) (f 5 (sc Boolean) -)))"

func mustParse(s string) sx.S {
	v, err := sx.Parse(s)
	if err != nil {
		panic(err)
	}
	return v
}

func coerceGen(dir string) func(r *rand.Rand, tier string) []Case {
	return func(r *rand.Rand, tier string) []Case {
		var cases []Case
		n := 0
		reqEvery := 4 // every n-th input case also travels through a request (quick tier)
		if tier == "thorough" {
			reqEvery = 1
		}
		add := func(t, v sx.S, tags ...string) {
			n++
			cases = append(cases, Case{ID: fmt.Sprintf("k%d", n), Input: sx.L("coerce", dir, t, v),
				Tags: append(tags, "nontrivial"), Human: sx.String(t) + " <- " + sx.String(v)})
			if dir == "reuse" {
				cases = cases[:len(cases)-1]
				if _, ok := coerceLitText(v); ok && sdlType(t) {
					d := []string{"reqrl", "reqr0", "reqr1", "reqr2", "reqr3", "reqr0"}[n%6]
					cases = append(cases, Case{ID: fmt.Sprintf("q%d", n), Input: sx.L("coerce", d, t, v),
						Tags:  append(append([]string{}, tags...), "nontrivial", "parsed-once-resolved-twice"),
						Human: "f(a: " + coerceTypeText(t) + ") given " + sx.String(v) + " as a literal / variable default (" + d + "), parsed once, resolved twice"})
				}
			}
			if dir == "in" && strings.Contains(sx.String(t), "(input ") {
				cases = append(cases, Case{ID: fmt.Sprintf("k%db", n), Input: sx.L("coerce", "inb", t, v),
					Tags: append(append([]string{}, tags...), "nontrivial", "input-type-bound-to-a-go-struct"), Human: sx.String(t) + " (bound to a Go struct) <- " + sx.String(v)})
			}
			if dir == "in" && n%reqEvery == 0 && sdlType(t) {
				if lit, ok := coerceLitText(v); ok {
					cases = append(cases, Case{ID: fmt.Sprintf("k%dl", n), Input: sx.L("coerce", "reql", t, v),
						Tags: append(append([]string{}, tags...), "nontrivial", "request-literal"), Human: "{ f(a: " + lit + ") } with a: " + coerceTypeText(t)})
				}
				if strings.Contains(sx.String(t), "(l ") {
					cases = append(cases, Case{ID: fmt.Sprintf("k%dw", n), Input: sx.L("coerce", "reqw", t, v),
						Tags: append(append([]string{}, tags...), "nontrivial", "request-variable-used-twice"), Human: "query($v: " + coerceTypeText(t) + ") { g(b: $v) f(a: $v) } with b of a sibling type and v = " + sx.String(v)})
				}
				cases = append(cases, Case{ID: fmt.Sprintf("k%dv", n), Input: sx.L("coerce", "reqv", t, v),
					Tags: append(append([]string{}, tags...), "nontrivial", "request-variable"), Human: "query($v: " + coerceTypeText(t) + ") { f(a: $v) } with v = " + sx.String(v)})
				if lit, ok := coerceLitText(v); ok && n%(2*reqEvery) == 0 {
					d := fmt.Sprintf("reqd%d", (n/(2*reqEvery))%4)
					cases = append(cases, Case{ID: fmt.Sprintf("k%dd", n), Input: sx.L("coerce", d, t, v),
						Tags:  append(append([]string{}, tags...), "nontrivial", "request-variable-default"),
						Human: "query($u: Int, $v: " + coerceTypeText(t) + " = " + lit + ") { f(a: $v) } (" + d + ": no value / empty map / other variable only / null given)"})
				}
				if vs, isAtom := v.(string); (!isAtom || vs != "nil") && n%(2*reqEvery) == reqEvery%(2*reqEvery) {
					cases = append(cases, Case{ID: fmt.Sprintf("k%dp", n), Input: sx.L("coerce", "reqp", t, v),
						Tags:  append(append([]string{}, tags...), "nontrivial", "request-variable-over-default"),
						Human: "query($u: Int = 1, $v: " + coerceTypeText(t) + " = " + decoyDefault(t) + ") { f(a: $v) } with v = " + sx.String(v)})
				}
			}
		}
		leaves := leafValues()
		var types []sx.S
		for _, s := range scalarNames {
			types = append(types, sx.L("sc", s))
		}
		types = append(types, mustParse("(enum (1 2 3))"))
		// full leaf sweep: every leaf type x every value, bare and under NonNull
		for _, t := range types {
			for _, v := range leaves {
				add(t, v, "leaf-sweep")
				if dir == "in" || dir == "reuse" {
					add(sx.L("nn", t), v, "leaf-sweep", "non-null")
				}
			}
		}
		if dir == "out" {
			// through the executor: list fields answered with typed slices of 2-4 values of one Go type
			nsl := 300
			if tier == "thorough" {
				nsl = 6000
			}
			// typed slices whose first element is already in output form and a later one cannot be
			// represented: every element goes through the coercion of the element type, not only the first
			addx := func(t sx.S, vals ...sx.S) {
				n++
				in := sx.L("coerce", "outx", t, append([]sx.S{"vals"}, vals...))
				cases = append(cases, Case{ID: fmt.Sprintf("x%d", n), Input: in,
					Tags: []string{"nontrivial", "typed-slice-through-the-executor", "good-then-bad"}, Human: sx.String(t) + " <- " + sx.String(in)})
			}
			for i, f := range floatZoo {
				if math.IsNaN(f) || math.IsInf(f, 0) {
					continue
				}
				for j, g := range floatZoo {
					if math.IsNaN(g) || math.IsInf(g, 0) {
						addx(sx.L("sc", "Float64"), fltSexp(i, f, false), fltSexp(j, g, false), fltSexp(i, f, false))
						if f32 := float32(f); !math.IsInf(float64(f32), 0) && i%3 == 0 {
							addx(sx.L("sc", "Float"), fltSexp(1000+i, float64(f32), true), fltSexp(1000+j, float64(float32(g)), true))
						}
					}
				}
			}
			for i := range stringZoo {
				if _, err := time.Parse(time.RFC3339Nano, stringZoo[i]); err == nil {
					for j := range stringZoo {
						if j != i && j%4 == 0 {
							addx(sx.L("sc", "Time"), strSexp(i), strSexp(j))
						}
					}
				}
			}
			for i := 0; i < nsl; i++ {
				var t sx.S = sx.L("sc", scalarNames[r.Intn(len(scalarNames))])
				if i%8 == 7 {
					// the field is a list of lists and the resolver answers with a flat typed slice:
					// every element stands where a list is declared
					t = sx.L("l", t)
				}
				v0 := leaves[r.Intn(len(leaves))]
				if i%8 == 7 && i%16 == 7 {
					// ... with the slice the element type would take as it is: []string for [[String]], [[ID]]
					t = sx.L("l", sx.L("sc", []string{"String", "ID", "String"}[r.Intn(3)]))
					for sx.Head(v0) != "s" {
						v0 = leaves[r.Intn(len(leaves))]
					}
				}
				vals := []sx.S{"vals", v0}
				for j := 1 + r.Intn(3); j > 0; j-- {
					// mostly values described the same way (same Go type), sometimes anything
					for try := 0; try < 30; try++ {
						c := leaves[r.Intn(len(leaves))]
						if sx.Head(c) == sx.Head(v0) && (r.Intn(4) != 0 || try > 20) {
							if cl, ok := c.([]sx.S); ok && len(cl) > 1 {
								if v0l, ok := v0.([]sx.S); ok && len(v0l) > 1 && sx.Head(c) == "i" && sx.String(cl[1]) != sx.String(v0l[1]) && r.Intn(3) != 0 {
									continue // another integer kind
								}
							}
							vals = append(vals, c)
							break
						}
					}
				}
				n++
				cases = append(cases, Case{ID: fmt.Sprintf("x%d", n), Input: sx.L("coerce", "outx", t, vals),
					Tags: []string{"nontrivial", "typed-slice-through-the-executor"}, Human: sx.String(t) + " <- " + sx.String(vals)})
			}
			return cases
		}
		// lists and input objects: random nesting
		nrand := 2500
		if tier == "thorough" {
			nrand = 60000
		}
		var genT func(d int) sx.S
		genT = func(d int) sx.S {
			switch x := r.Intn(10); {
			case x < 4 || d >= 3:
				return types[r.Intn(len(types))]
			case x < 6:
				return sx.L("l", genT(d+1))
			case x < 7:
				return sx.L("nn", genT(d+1))
			case x < 9:
				return mustParse(input40)
			default:
				return mustParse(input41)
			}
		}
		var genV func(t sx.S, d int) sx.S
		genV = func(t sx.S, d int) sx.S {
			if r.Intn(12) == 0 {
				return leaves[r.Intn(len(leaves))]
			}
			tl := sx.List(t)
			switch sx.Head(t) {
			case "l":
				if r.Intn(8) == 0 {
					return "nil"
				}
				if r.Intn(8) == 0 {
					return genV(tl[1], d+1) // one level short: a value of the element type where the list is declared
				}
				out := []sx.S{"l"}
				for i := r.Intn(4); i > 0; i-- {
					out = append(out, genV(tl[1], d+1))
				}
				return out
			case "nn":
				return genV(tl[1], d)
			case "input":
				out := []sx.S{"m"}
				for _, f := range sx.List(tl[2])[1:] {
					fl := sx.List(f)
					switch x := r.Intn(8); {
					case x == 0: // the key is there, holding an explicit null
						out = append(out, sx.L(fl[1], "nil"))
					case x < 6:
						out = append(out, sx.L(fl[1], genV(fl[2], d+1)))
					}
				}
				if r.Intn(10) == 0 {
					if r.Intn(2) == 0 {
						out = append(out, sx.L("9", "nil")) // undeclared field holding null
					} else {
						out = append(out, sx.L("9", sx.L("b", "1"))) // undeclared field
					}
				}
				return out
			case "enum":
				return sx.L("sym", sx.A(1+r.Intn(4)))
			case "sc":
				// mostly values of the right family
				switch tl[1].(string) {
				case "Int", "Int64", "ID":
					k := kindNames[r.Intn(len(kindNames))]
					z := intZoo[r.Intn(len(intZoo))]
					if fitsKind(k, z) {
						return sx.L("i", k, strconv.FormatInt(z, 10))
					}
					return sx.L("i", "int64", strconv.FormatInt(z, 10))
				case "Float", "Float64":
					i := r.Intn(len(floatZoo))
					return fltSexp(i, floatZoo[i], false)
				case "Boolean":
					return sx.L("b", sx.A(r.Intn(2)))
				default:
					return strSexp(r.Intn(len(stringZoo)))
				}
			}
			return "nil"
		}
		for i := 0; i < nrand; i++ {
			t := genT(0)
			add(t, genV(t, 0), "nested")
		}
		// a well-formed value of the element type where a list of it is declared (alone, or as a member
		// of a list one level too shallow), in every request route
		short := 0
		for _, t := range types {
			for _, wrap := range []func(sx.S) sx.S{
				func(t sx.S) sx.S { return sx.L("l", t) }, func(t sx.S) sx.S { return sx.L("l", sx.L("nn", t)) },
				func(t sx.S) sx.S { return sx.L("nn", sx.L("l", t)) }, func(t sx.S) sx.S { return sx.L("l", sx.L("l", t)) }} {
				wt := wrap(t)
				for k := 0; k < 2; k++ {
					v := genV(t, 3)
					for try := 0; try < 20 && sx.String(v) == "nil"; try++ {
						v = genV(t, 3)
					}
					if sx.Head(sx.List(wt)[1]) == "l" && k == 1 {
						v = sx.L("l", v, sx.L("l", genV(t, 3)))
					}
					short++
					for n%reqEvery != reqEvery-1 { // the next add is the one that also travels through a request
						n++
					}
					add(wt, v, "nested", "one-level-short")
				}
			}
		}
		// an undeclared key holding null (alone wrong in an otherwise well-formed object), at the top, in a
		// nested object and in a list member, in every request route
		{
			i3 := sx.L("i", kindNames[0], "3")
			t40, t41 := mustParse(input40), mustParse(input41)
			for _, tv := range [][2]sx.S{
				{t41, sx.L("m", sx.L("1", i3), sx.L("9", "nil"))},
				{t41, sx.L("m", sx.L("9", "nil"))},
				{t40, sx.L("m", sx.L("1", i3), sx.L("9", "nil"))},
				{t40, sx.L("m", sx.L("1", i3), sx.L("4", sx.L("m", sx.L("1", i3), sx.L("9", "nil"))))},
				{sx.L("l", t41), sx.L("l", sx.L("m", sx.L("1", i3)), sx.L("m", sx.L("9", "nil")))},
				{sx.L("nn", sx.L("l", sx.L("nn", t40))), sx.L("l", sx.L("m", sx.L("1", i3), sx.L("9", "nil")))},
			} {
				for n%reqEvery != reqEvery-1 {
					n++
				}
				add(tv[0], tv[1], "nested", "undeclared-null-key")
			}
		}
		return cases
	}
}

// inputTypesAsDeclared: an input object type in a case is the library's T40 / T41 as the schema of
// this harness declares it (a shrunk case must not describe another type than the one that runs)
func inputTypesAsDeclared(t sx.S) bool {
	switch sx.Head(t) {
	case "l", "nn":
		return inputTypesAsDeclared(sx.List(t)[1])
	case "input":
		want := input41
		if sx.List(t)[1].(string) == "40" {
			want = input40
		}
		return sx.String(t) == sx.String(mustParse(want))
	}
	return true
}

func coerceValid(input sx.S) bool {
	l := sx.List(input)
	if sx.Head(input) != "coerce" || len(l) != 4 {
		return false
	}
	root := ggql.NewRoot(nil)
	_ = root.ParseString(coerceSDL)
	if l[1].(string) == "outx" {
		if !(sx.Head(l[2]) == "sc" || (sx.Head(l[2]) == "l" && sx.Head(sx.List(l[2])[1]) == "sc")) || sx.Head(l[3]) != "vals" || len(sx.List(l[3])) < 2 {
			return false
		}
		for _, v := range sx.List(l[3])[1:] {
			_ = coerceGoValue(v)
		}
		return true
	}
	_ = coerceType(root, l[2])
	_ = coerceGoValue(l[3])
	if !inputTypesAsDeclared(l[2]) {
		return false
	}
	if d := l[1].(string); strings.HasPrefix(d, "req") {
		_, ok := coerceLitText(l[3])
		vs, isAtom := l[3].(string)
		switch {
		case !sdlType(l[2]):
			return false
		case (d == "reql" || strings.HasPrefix(d, "reqd") || strings.HasPrefix(d, "reqr")) && !ok:
			return false
		case d == "reqp" && isAtom && vs == "nil":
			return false
		case d != "reql" && d != "reqv" && d != "reqp" && d != "reqd0" && d != "reqd1" && d != "reqd2" && d != "reqd3" &&
			d != "reqrl" && d != "reqr0" && d != "reqr1" && d != "reqr2" && d != "reqr3" && d != "reqw":
			return false
		}
	}
	return true
}

func init() {
	props["C04"] = &Prop{Gen: coerceGen("in"), Exec: coerceExec, Valid: coerceValid}
	props["C05"] = &Prop{Gen: coerceGen("out"), Exec: coerceExec, Valid: coerceValid}
}
