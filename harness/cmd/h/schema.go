package main

// The schema core (C13, C14, C16): definition sets as data, rendered to SDL by this file's own
// printer, loaded into a real root, and read back through Root.Types() and the verif accessors.

import (
	"encoding/json"
	"errors"
	"fmt"
	"io"
	"math/rand"
	"regexp"
	"sort"
	"strconv"
	"strings"
	"testing/fstest"

	"github.com/uhn/ggql/pkg/ggql"

	"verifharness/sx"
)

// ---- the abstract syntax (mirrors Schema.v) ----

type scT struct {
	K  int // 0 named, 1 list, 2 non-null
	N  int
	Of *scT
}

type scV struct {
	K string // null i s b y l o
	I int64
	L []scV
	F []int // o: the field names, values in L
}

type scAV struct {
	N int
	V scV
}

type scDU struct {
	N    int
	Args []scAV
}

type scArg struct {
	N    int
	Desc string
	T    scT
	Def  *scV
	Dirs []scDU
}

type scField struct {
	N    int
	Desc string
	T    scT
	Args []scArg
	Dirs []scDU
}

type scEV struct {
	N    int
	Desc string
	Dirs []scDU
}

const (
	kScalar = iota
	kObject
	kInterface
	kUnion
	kEnum
	kInput
	kDirective
	kSchema
)

type scItem struct {
	Ext     bool
	K       int
	N       int
	Desc    string
	Dirs    []scDU
	Ifaces  []int
	Fields  []scField
	Members []int
	Vals    []scEV
	Inputs  []scArg
	Locs    []int
}

// ---- names ----

var scCoreTypes = []string{"Int", "Float", "String", "Boolean", "ID", "Time", "Int64", "Float64"}
var scOpTypes = map[int]string{10: "Query", 11: "Mutation", 12: "Subscription"}
var scCoreDirs = []string{"skip", "include", "deprecated", "go"}
var scCoreArgs = []string{"if", "reason", "type"}
var scLocs = []string{"QUERY", "MUTATION", "SUBSCRIPTION", "FIELD", "FRAGMENT_DEFINITION", "FRAGMENT_SPREAD",
	"INLINE_FRAGMENT", "SCHEMA", "SCALAR", "OBJECT", "FIELD_DEFINITION", "ARGUMENT_DEFINITION", "INTERFACE",
	"UNION", "ENUM", "ENUM_VALUE", "INPUT_OBJECT", "INPUT_FIELD_DEFINITION"}

func scGen(prefix string, n int) string {
	if n >= 1000 {
		return fmt.Sprintf("__%s%04d", prefix, n-1000)
	}
	return fmt.Sprintf("%s%04d", prefix, n)
}

func scTypeName(n int) string {
	if n < len(scCoreTypes) {
		return scCoreTypes[n]
	}
	if s, ok := scOpTypes[n]; ok {
		return s
	}
	if n >= 700 && n < 800 {
		return scGen("t", n-700) // the name of type n-700 in lower case: names are told apart by case
	}
	if n >= 800 && n < 900 {
		return scDirName(n - 800) // a type that carries the name of directive n-800 (names of types and directives are apart)
	}
	return scGen("T", n)
}

func scDirName(n int) string {
	if n < len(scCoreDirs) {
		return scCoreDirs[n]
	}
	return scGen("d", n)
}

func scArgName(n int) string {
	if n < len(scCoreArgs) {
		return scCoreArgs[n]
	}
	return scGen("a", n)
}

func scFieldName(n int, schema bool) string {
	if schema {
		switch n {
		case 1:
			return "query"
		case 2:
			return "mutation"
		case 3:
			return "subscription"
		}
	}
	return scGen("f", n)
}

func scValName(n int) string {
	switch n {
	case 1:
		return "true"
	case 2:
		return "false"
	case 3:
		return "null"
	}
	return scGen("E", n)
}

func scLocName(n int) string {
	if 0 <= n && n < len(scLocs) {
		return scLocs[n]
	}
	return "NONSENSE"
}

var scGenRe = regexp.MustCompile(`^(__)?([TtdfaE])(\d{4})$`)

// scParseName inverts the renderers: (name space letter, number).
func scParseName(s string) (byte, int, bool) {
	m := scGenRe.FindStringSubmatch(s)
	if m == nil {
		return 0, 0, false
	}
	n, _ := strconv.Atoi(m[3])
	if m[1] != "" {
		n += 1000
	}
	return m[2][0], n, true
}

func scTypeID(s string) int {
	for i, c := range scCoreTypes {
		if c == s {
			return i
		}
	}
	for i, c := range scOpTypes {
		if c == s {
			return i
		}
	}
	if k, n, ok := scParseName(s); ok && k == 'T' {
		return n
	}
	if k, n, ok := scParseName(s); ok && k == 't' && n < 100 {
		return 700 + n
	}
	if k, n, ok := scParseName(s); ok && k == 'd' && n < 100 {
		return 800 + n
	}
	return 9999
}

func scDirID(s string) int {
	for i, c := range scCoreDirs {
		if c == s {
			return i
		}
	}
	if k, n, ok := scParseName(s); ok && k == 'd' {
		return n
	}
	return 9999
}

func scArgID(s string) int {
	for i, c := range scCoreArgs {
		if c == s {
			return i
		}
	}
	if k, n, ok := scParseName(s); ok && k == 'a' {
		return n
	}
	return 9999
}

func scFieldID(s string) int {
	switch s {
	case "query":
		return 1
	case "mutation":
		return 2
	case "subscription":
		return 3
	}
	if k, n, ok := scParseName(s); ok && k == 'f' {
		return n
	}
	return 9999
}

func scValID(s string) int {
	switch s {
	case "true":
		return 1
	case "false":
		return 2
	case "null":
		return 3
	}
	if k, n, ok := scParseName(s); ok && k == 'E' {
		return n
	}
	return 9999
}

func scLocID(s string) int {
	for i, c := range scLocs {
		if c == s {
			return i
		}
	}
	return 99
}

// ---- s-expressions ----

func scTSx(t scT) sx.S {
	switch t.K {
	case 1:
		return sx.L("l", scTSx(*t.Of))
	case 2:
		return sx.L("nn", scTSx(*t.Of))
	}
	return sx.L("n", sx.A(t.N))
}

func scTFromSx(s sx.S) scT {
	l := sx.List(s)
	switch l[0].(string) {
	case "l":
		o := scTFromSx(l[1])
		return scT{K: 1, Of: &o}
	case "nn":
		o := scTFromSx(l[1])
		return scT{K: 2, Of: &o}
	}
	return scT{N: sx.Int(l[1])}
}

func scVSx(v scV) sx.S {
	switch v.K {
	case "null":
		return "null"
	case "l":
		out := []sx.S{"l"}
		for _, e := range v.L {
			out = append(out, scVSx(e))
		}
		return out
	case "o":
		out := []sx.S{"o"}
		for i, e := range v.L {
			out = append(out, sx.L(sx.A(v.F[i]), scVSx(e)))
		}
		return out
	}
	return sx.L(v.K, sx.A(v.I))
}

func scVFromSx(s sx.S) scV {
	if a, ok := s.(string); ok {
		if a != "null" {
			panic("bad value")
		}
		return scV{K: "null"}
	}
	l := sx.List(s)
	k := l[0].(string)
	if k == "l" {
		v := scV{K: "l"}
		for _, e := range l[1:] {
			v.L = append(v.L, scVFromSx(e))
		}
		return v
	}
	if k == "o" {
		v := scV{K: "o"}
		for _, e := range l[1:] {
			kv := sx.List(e)
			v.F = append(v.F, sx.Int(kv[0]))
			v.L = append(v.L, scVFromSx(kv[1]))
		}
		return v
	}
	n, err := strconv.ParseInt(l[1].(string), 10, 64)
	if err != nil {
		panic(err)
	}
	switch k {
	case "i", "s", "b", "y":
	default:
		panic("bad value kind")
	}
	return scV{K: k, I: n}
}

func scDUsSx(dus []scDU) sx.S {
	out := []sx.S{"dirs"}
	for _, d := range dus {
		e := []sx.S{"du", sx.A(d.N)}
		for _, av := range d.Args {
			e = append(e, sx.L("av", sx.A(av.N), scVSx(av.V)))
		}
		out = append(out, e)
	}
	return out
}

func scDUsFromSx(s sx.S) []scDU {
	l := sx.List(s)
	if l[0].(string) != "dirs" {
		panic("dirs expected")
	}
	var out []scDU
	for _, e := range l[1:] {
		el := sx.List(e)
		d := scDU{N: sx.Int(el[1])}
		for _, a := range el[2:] {
			al := sx.List(a)
			d.Args = append(d.Args, scAV{N: sx.Int(al[1]), V: scVFromSx(al[2])})
		}
		out = append(out, d)
	}
	return out
}

func scArgSx(a scArg) sx.S {
	var def sx.S = "none"
	if a.Def != nil {
		def = sx.L("some", scVSx(*a.Def))
	}
	return sx.L("a", sx.A(a.N), sx.Hex(a.Desc), scTSx(a.T), def, scDUsSx(a.Dirs))
}

func scArgFromSx(s sx.S) scArg {
	l := sx.List(s)
	a := scArg{N: sx.Int(l[1]), Desc: sx.Str(l[2]), T: scTFromSx(l[3]), Dirs: scDUsFromSx(l[5])}
	if d, ok := l[4].([]sx.S); ok {
		v := scVFromSx(d[1])
		a.Def = &v
	}
	return a
}

func scArgsSx(tag string, as []scArg) sx.S {
	out := []sx.S{tag}
	for _, a := range as {
		out = append(out, scArgSx(a))
	}
	return out
}

func scArgsFromSx(s sx.S) []scArg {
	var out []scArg
	for _, e := range sx.List(s)[1:] {
		out = append(out, scArgFromSx(e))
	}
	return out
}

func scIntsSx(tag string, xs []int) sx.S {
	out := []sx.S{tag}
	for _, x := range xs {
		out = append(out, sx.A(x))
	}
	return out
}

func scIntsFromSx(s sx.S) []int {
	var out []int
	for _, e := range sx.List(s)[1:] {
		out = append(out, sx.Int(e))
	}
	return out
}

func scItemSx(it scItem) sx.S {
	fields := []sx.S{"fields"}
	for _, f := range it.Fields {
		fields = append(fields, sx.L("f", sx.A(f.N), sx.Hex(f.Desc), scTSx(f.T), scArgsSx("args", f.Args), scDUsSx(f.Dirs)))
	}
	vals := []sx.S{"vals"}
	for _, v := range it.Vals {
		vals = append(vals, sx.L("v", sx.A(v.N), sx.Hex(v.Desc), scDUsSx(v.Dirs)))
	}
	return sx.L("it", sx.A(it.Ext), sx.A(it.K), sx.A(it.N), sx.Hex(it.Desc), scDUsSx(it.Dirs),
		scIntsSx("ifaces", it.Ifaces), fields, scIntsSx("members", it.Members), vals,
		scArgsSx("inputs", it.Inputs), scIntsSx("locs", it.Locs))
}

func scItemFromSx(s sx.S) scItem {
	l := sx.List(s)
	if l[0].(string) != "it" || len(l) != 12 {
		panic("item expected")
	}
	it := scItem{Ext: l[1].(string) == "1", K: sx.Int(l[2]), N: sx.Int(l[3]), Desc: sx.Str(l[4]),
		Dirs: scDUsFromSx(l[5]), Ifaces: scIntsFromSx(l[6]), Members: scIntsFromSx(l[8]),
		Inputs: scArgsFromSx(l[10]), Locs: scIntsFromSx(l[11])}
	if it.K < 0 || it.K > kSchema {
		panic("bad kind")
	}
	for _, e := range sx.List(l[7])[1:] {
		fl := sx.List(e)
		it.Fields = append(it.Fields, scField{N: sx.Int(fl[1]), Desc: sx.Str(fl[2]), T: scTFromSx(fl[3]),
			Args: scArgsFromSx(fl[4]), Dirs: scDUsFromSx(fl[5])})
	}
	for _, e := range sx.List(l[9])[1:] {
		vl := sx.List(e)
		it.Vals = append(it.Vals, scEV{N: sx.Int(vl[1]), Desc: sx.Str(vl[2]), Dirs: scDUsFromSx(vl[3])})
	}
	return it
}

// ---- the SDL printer of this harness (not ggql's) ----

func scTText(t scT) string {
	switch t.K {
	case 1:
		return "[" + scTText(*t.Of) + "]"
	case 2:
		return scTText(*t.Of) + "!"
	}
	return scTypeName(t.N)
}

func scStrText(n int64) string {
	if n == 0 {
		return `"\"No longer supported\""`
	}
	return fmt.Sprintf(`"s%d"`, n)
}

func scVText(v scV) string {
	switch v.K {
	case "null":
		return "null"
	case "i":
		return strconv.FormatInt(v.I, 10)
	case "s":
		return scStrText(v.I)
	case "b":
		if v.I != 0 {
			return "true"
		}
		return "false"
	case "y":
		return scValName(int(v.I))
	case "l":
		parts := []string{}
		for _, e := range v.L {
			parts = append(parts, scVText(e))
		}
		return "[" + strings.Join(parts, ", ") + "]"
	case "o":
		parts := []string{}
		for i, e := range v.L {
			parts = append(parts, scFieldName(v.F[i], false)+": "+scVText(e))
		}
		return "{" + strings.Join(parts, ", ") + "}"
	}
	panic("bad value")
}

func scDUsText(dus []scDU) string {
	var b strings.Builder
	for _, d := range dus {
		b.WriteString(" @" + scDirName(d.N))
		if len(d.Args) > 0 {
			parts := []string{}
			for _, av := range d.Args {
				parts = append(parts, scArgName(av.N)+": "+scVText(av.V))
			}
			b.WriteString("(" + strings.Join(parts, ", ") + ")")
		}
	}
	return b.String()
}

// descriptions here are plain words; C15 has its own string payloads
func scDescText(d string, indent string) string {
	if d == "" {
		return ""
	}
	return indent + `"` + d + `"` + "\n"
}

func scArgsText(as []scArg) string {
	if len(as) == 0 {
		return ""
	}
	parts := []string{}
	for _, a := range as {
		s := ""
		if a.Desc != "" {
			s = `"` + a.Desc + `" `
		}
		s += scArgName(a.N) + ": " + scTText(a.T)
		if a.Def != nil {
			s += " = " + scVText(*a.Def)
		}
		s += scDUsText(a.Dirs)
		parts = append(parts, s)
	}
	return "(" + strings.Join(parts, ", ") + ")"
}

func scItemText(it scItem) string {
	var b strings.Builder
	if !it.Ext {
		b.WriteString(scDescText(it.Desc, ""))
	} else {
		b.WriteString("extend ")
	}
	switch it.K {
	case kScalar:
		b.WriteString("scalar " + scTypeName(it.N) + scDUsText(it.Dirs) + "\n")
	case kObject, kInterface, kSchema:
		switch it.K {
		case kObject:
			b.WriteString("type " + scTypeName(it.N))
			if len(it.Ifaces) > 0 {
				parts := []string{}
				for _, i := range it.Ifaces {
					parts = append(parts, scTypeName(i))
				}
				b.WriteString(" implements " + strings.Join(parts, " & "))
			}
		case kInterface:
			b.WriteString("interface " + scTypeName(it.N))
		case kSchema:
			b.WriteString("schema")
		}
		b.WriteString(scDUsText(it.Dirs))
		{
			b.WriteString(" {\n")
			for _, f := range it.Fields {
				b.WriteString(scDescText(f.Desc, "  "))
				b.WriteString("  " + scFieldName(f.N, it.K == kSchema) + scArgsText(f.Args) + ": " + scTText(f.T) + scDUsText(f.Dirs) + "\n")
			}
			b.WriteString("}")
		}
		b.WriteString("\n")
	case kUnion:
		b.WriteString("union " + scTypeName(it.N) + scDUsText(it.Dirs))
		{
			parts := []string{}
			for _, m := range it.Members {
				parts = append(parts, scTypeName(m))
			}
			b.WriteString(" = " + strings.Join(parts, " | "))
		}
		b.WriteString("\n")
	case kEnum:
		b.WriteString("enum " + scTypeName(it.N) + scDUsText(it.Dirs))
		{
			b.WriteString(" {\n")
			for _, v := range it.Vals {
				b.WriteString(scDescText(v.Desc, "  "))
				b.WriteString("  " + scValName(v.N) + scDUsText(v.Dirs) + "\n")
			}
			b.WriteString("}")
		}
		b.WriteString("\n")
	case kInput:
		b.WriteString("input " + scTypeName(it.N) + scDUsText(it.Dirs))
		{
			b.WriteString(" {\n")
			for _, a := range it.Inputs {
				b.WriteString(scDescText(a.Desc, "  "))
				s := "  " + scFieldName(a.N, false) + ": " + scTText(a.T)
				if a.Def != nil {
					s += " = " + scVText(*a.Def)
				}
				b.WriteString(s + scDUsText(a.Dirs) + "\n")
			}
			b.WriteString("}")
		}
		b.WriteString("\n")
	case kDirective:
		b.WriteString("directive @" + scDirName(it.N) + scArgsText(it.Inputs) + " on ")
		parts := []string{}
		for _, l := range it.Locs {
			parts = append(parts, scLocName(l))
		}
		b.WriteString(strings.Join(parts, " | ") + "\n")
	}
	return b.String()
}

func scDocText(items []scItem) string {
	var b strings.Builder
	for _, it := range items {
		b.WriteString(scItemText(it))
		b.WriteString("\n")
	}
	return b.String()
}

// ---- reading a root back ----

func scTOf(t ggql.Type) scT {
	switch tt := t.(type) {
	case *ggql.List:
		o := scTOf(tt.Base)
		return scT{K: 1, Of: &o}
	case *ggql.NonNull:
		o := scTOf(tt.Base)
		return scT{K: 2, Of: &o}
	case nil:
		return scT{N: 9998}
	}
	return scT{N: scTypeID(t.Name())}
}

var scDigits = regexp.MustCompile(`^-?\d+$`)
var scStrRe = regexp.MustCompile(`^s(\d+)$`)

func scVOf(v interface{}) scV {
	switch t := v.(type) {
	case nil:
		return scV{K: "null"}
	case int:
		return scV{K: "i", I: int64(t)}
	case int32:
		return scV{K: "i", I: int64(t)}
	case int64:
		return scV{K: "i", I: t}
	case float64:
		if t == float64(int64(t)) {
			return scV{K: "i", I: int64(t)}
		}
		return scV{K: "s", I: 9997}
	case float32:
		return scV{K: "i", I: int64(t)}
	case bool:
		if t {
			return scV{K: "b", I: 1}
		}
		return scV{K: "b", I: 0}
	case ggql.Symbol:
		return scV{K: "y", I: int64(scValID(string(t)))}
	case string:
		if t == `"No longer supported"` {
			return scV{K: "s", I: 0}
		}
		if m := scStrRe.FindStringSubmatch(t); m != nil {
			n, _ := strconv.ParseInt(m[1], 10, 64)
			return scV{K: "s", I: n}
		}
		if scDigits.MatchString(t) {
			n, _ := strconv.ParseInt(t, 10, 64)
			return scV{K: "i", I: n}
		}
		return scV{K: "s", I: 9999}
	case []interface{}:
		out := scV{K: "l"}
		for _, e := range t {
			out.L = append(out.L, scVOf(e))
		}
		return out
	case map[string]interface{}:
		out := scV{K: "o"}
		keys := []string{}
		for k := range t {
			keys = append(keys, k)
		}
		sort.Strings(keys)
		for _, k := range keys {
			out.F = append(out.F, scFieldID(k))
			out.L = append(out.L, scVOf(t[k]))
		}
		return out
	}
	return scV{K: "s", I: 9996}
}

// scDUsOf reads directive uses, filling the defaults of arguments the use does not give from the
// directive definition now in the root (the property compares uses "once directive-argument
// defaults are taken into account").
func scDUsOf(dus []*ggql.DirectiveUse) []scDU {
	var out []scDU
	for _, du := range dus {
		d := scDU{N: 9999}
		if du.Directive != nil {
			d.N = scDirID(du.Directive.Name())
		}
		seen := map[string]bool{}
		names := []string{}
		for k := range du.Args {
			names = append(names, k)
		}
		sort.Strings(names)
		for _, k := range names {
			seen[k] = true
			d.Args = append(d.Args, scAV{N: scArgID(k), V: scVOf(du.Args[k].Value)})
		}
		if dd, _ := du.Directive.(*ggql.Directive); dd != nil {
			for _, a := range dd.VerifArgs() {
				if !seen[a.N] {
					d.Args = append(d.Args, scAV{N: scArgID(a.N), V: scVOf(a.Default)})
				}
			}
		}
		out = append(out, d)
	}
	return out
}

func scArgOf(a *ggql.Arg) scArg {
	out := scArg{N: scArgID(a.N), Desc: a.Desc, T: scTOf(a.Type), Dirs: scDUsOf(a.Dirs)}
	if a.Default != nil {
		v := scVOf(a.Default)
		out.Def = &v
	}
	return out
}

func scFieldsOf(fds []*ggql.FieldDef, schema bool) []scField {
	var out []scField
	for _, f := range fds {
		sf := scField{N: scFieldID(f.N), Desc: f.Desc, T: scTOf(f.Type), Dirs: scDUsOf(f.Dirs)}
		for _, a := range f.Args() {
			sf.Args = append(sf.Args, scArgOf(a))
		}
		out = append(out, sf)
	}
	return out
}

// scWalk reads the non-core part of a root as definitions.
func scWalk(root *ggql.Root) []scItem {
	var out []scItem
	for _, t := range root.Types() {
		if t.Core() || scTypeID(t.Name()) < len(scCoreTypes) {
			continue
		}
		it := scItem{N: scTypeID(t.Name()), Desc: t.Description(), Dirs: scDUsOf(t.Directives())}
		switch tt := t.(type) {
		case *ggql.Schema:
			it.K = kSchema
			it.N = 0
			it.Fields = scFieldsOf(tt.Fields(), true)
		case *ggql.Object:
			it.K = kObject
			for _, i := range tt.Interfaces {
				it.Ifaces = append(it.Ifaces, scTypeID(i.Name()))
			}
			it.Fields = scFieldsOf(tt.Fields(), false)
		case *ggql.Interface:
			it.K = kInterface
			it.Fields = scFieldsOf(tt.Fields(), false)
		case *ggql.Union:
			it.K = kUnion
			for _, m := range tt.Members {
				it.Members = append(it.Members, scTypeID(m.Name()))
			}
		case *ggql.Enum:
			it.K = kEnum
			for _, v := range tt.Values() {
				it.Vals = append(it.Vals, scEV{N: scValID(string(v.Value)), Desc: v.Description, Dirs: scDUsOf(v.Directives)})
			}
		case *ggql.Input:
			it.K = kInput
			for _, f := range tt.Fields() {
				a := scArg{N: scFieldID(f.N), Desc: f.Desc, T: scTOf(f.Type), Dirs: scDUsOf(f.Dirs)}
				if f.Default != nil {
					v := scVOf(f.Default)
					a.Def = &v
				}
				it.Inputs = append(it.Inputs, a)
			}
		case *ggql.Scalar:
			it.K = kScalar
		default:
			it.K = kScalar
			if ggql.Locate(t) != ggql.LocScalar {
				it.N = 9995
			}
		}
		out = append(out, it)
	}
	for _, t := range root.VerifDirectives() {
		if t.Core() {
			continue
		}
		d, _ := t.(*ggql.Directive)
		if d == nil {
			continue
		}
		it := scItem{K: kDirective, N: scDirID(d.N), Desc: d.Desc}
		for _, a := range d.VerifArgs() {
			it.Inputs = append(it.Inputs, scArgOf(a))
		}
		for _, l := range d.On {
			it.Locs = append(it.Locs, scLocID(string(l)))
		}
		out = append(out, it)
	}
	return out
}

// scOps reads the operation root types in force.
func scOps(root *ggql.Root) sx.S {
	out := []sx.S{"ops"}
	if s := root.VerifSchema(); s != nil {
		fs := scFieldsOf(s.Fields(), true)
		sort.Slice(fs, func(i, j int) bool { return fs[i].N < fs[j].N })
		for _, f := range fs {
			b := f.T
			for b.Of != nil {
				b = *b.Of
			}
			out = append(out, sx.L(sx.A(f.N), sx.A(b.N)))
		}
	}
	return out
}

var scCiteRe = regexp.MustCompile(`(__)?[TdfaE]\d{4}`)

// scCites lists the generated names an error message mentions.
var scAtRe = regexp.MustCompile(` at (\d+):(\d+)`)

// A message that gives a position names what stands on that line of the document.
func scCites(msg string, text string) sx.S {
	out := []sx.S{"cites"}
	seen := map[string]bool{}
	lines := strings.Split(text, "\n")
	for _, m := range scAtRe.FindAllStringSubmatch(msg, -1) {
		if l, _ := strconv.Atoi(m[1]); 1 <= l && l <= len(lines) {
			msg += " " + lines[l-1]
		}
	}
	for _, m := range scCiteRe.FindAllString(msg, -1) {
		if seen[m] {
			continue
		}
		seen[m] = true
		k, n, _ := scParseName(m)
		ns := map[byte]int{'T': 0, 'd': 1, 'f': 3, 'a': 4, 'E': 5}[k]
		out = append(out, sx.L(sx.A(ns), sx.A(n)))
		if k == 'f' { // input fields are cited as arguments by the model
			out = append(out, sx.L(sx.A(4), sx.A(n)))
		}
	}
	words := regexp.MustCompile(`[A-Za-z_]+`).FindAllString(msg, -1)
	for _, w := range words {
		if seen[w] {
			continue
		}
		seen[w] = true
		for i, c := range scCoreTypes {
			if c == w {
				out = append(out, sx.L("0", sx.A(i)))
			}
		}
		for i, c := range scOpTypes {
			if c == w {
				out = append(out, sx.L("0", sx.A(i)))
			}
		}
		for i, c := range scCoreDirs {
			if c == w {
				out = append(out, sx.L("1", sx.A(i)))
			}
		}
		for i, c := range scCoreArgs {
			if c == w {
				out = append(out, sx.L("4", sx.A(i)))
			}
		}
		for i, c := range scLocs {
			if c == w {
				out = append(out, sx.L("6", sx.A(i)))
			}
		}
		switch w {
		case "NONSENSE":
			out = append(out, sx.L("6", "99"))
		case "true":
			out = append(out, sx.L("5", "1"))
		case "false":
			out = append(out, sx.L("5", "2"))
		case "null":
			out = append(out, sx.L("5", "3"))
		case "query":
			out = append(out, sx.L("3", "1"))
		case "mutation":
			out = append(out, sx.L("3", "2"))
		case "subscription":
			out = append(out, sx.L("3", "3"))
		}
	}
	return out
}

// ---- running a history of loads ----

type faultReader struct {
	s   string
	pos int
	at  int
}

func (f *faultReader) Read(p []byte) (int, error) {
	if f.pos >= f.at {
		return 0, errors.New("reader fault")
	}
	if f.pos >= len(f.s) {
		return 0, io.EOF
	}
	n := copy(p, f.s[f.pos:min(len(f.s), f.at)])
	f.pos += n
	return n, nil
}

const scIntrospection = `{__schema{queryType{name} mutationType{name} subscriptionType{name}
 types{kind name description fields(includeDeprecated:true){name description isDeprecated deprecationReason type{kind name ofType{kind name ofType{kind name ofType{kind name}}}}
   args{name description defaultValue type{kind name ofType{kind name ofType{kind name ofType{kind name}}}}}}
  interfaces{name} possibleTypes{name} enumValues(includeDeprecated:true){name description isDeprecated deprecationReason}
  inputFields{name description defaultValue type{kind name ofType{kind name ofType{kind name ofType{kind name}}}}} ofType{name}}
 directives{name description locations args{name description defaultValue type{kind name ofType{kind name ofType{kind name}}}}}}}`

func scJSON(v interface{}) string {
	b, err := json.Marshal(v)
	if err != nil {
		return "marshal: " + err.Error()
	}
	return string(b)
}

type scProbe struct{}

func (scProbe) Resolve(f *ggql.Field, _ map[string]interface{}) (interface{}, error) {
	switch f.Name {
	case "query", "mutation", "subscription":
		return scOpObj{}, nil
	}
	return nil, nil
}

// scApp: a root object found by reflection whose fields do not carry the names of the operations: the
// schema's fields are bound to them with RegisterType / RegisterField after every accepted load, so
// the requests of the snapshot depend on bindings that sit on the schema object
type scApp struct {
	Q scOpObj
	M scOpObj
}

func scBind(root *ggql.Root) {
	defer func() { _ = recover() }()
	_ = root.RegisterType(&scApp{}, "schema")
	_ = root.RegisterField("schema", "query", "Q")
	_ = root.RegisterField("schema", "mutation", "M")
}

type scOpObj struct{}

func (scOpObj) Resolve(f *ggql.Field, _ map[string]interface{}) (interface{}, error) {
	return nil, nil
}

// scSnapshot is everything C14 compares before and after a failed load.
func scSnapshot(root *ggql.Root) [3]string {
	var out [3]string
	out[0] = root.SDL(true, true)
	func() {
		defer func() {
			if r := recover(); r != nil {
				out[1] = fmt.Sprint("panic: ", r)
			}
		}()
		out[1] = scJSON(root.ResolveString(scIntrospection, "", nil))
	}()
	func() {
		defer func() {
			if r := recover(); r != nil {
				out[2] = fmt.Sprint("panic: ", r)
			}
		}()
		out[2] = scJSON(root.ResolveString("{__typename}", "", nil)) +
			scJSON(root.ResolveString("mutation{__typename}", "", nil))
	}()
	return out
}

func scItemsSx(tag string, items []scItem) sx.S {
	out := []sx.S{tag}
	for _, it := range items {
		out = append(out, scItemSx(it))
	}
	return out
}

// input: (docs (doc MODE item...)...)  MODE: ok | syntax | (fault k)
// observed: (loads (r accepted|rejected (cites..) msg (same sdl intro resp) (view item...) (ops..))...)
func scExec(input sx.S) sx.S {
	l := sx.List(input)
	if l[0].(string) != "docs" && l[0].(string) != "wfdocs" {
		panic("docs expected")
	}
	root := ggql.NewRoot(&scApp{})
	out := []sx.S{"loads"}
	var accepted []scItem
	for _, d := range l[1:] {
		dl := sx.List(d)
		if dl[0].(string) != "doc" {
			panic("doc expected")
		}
		var items []scItem
		for _, e := range dl[2:] {
			items = append(items, scItemFromSx(e))
		}
		text := scDocText(items)
		before := scSnapshot(root)
		var err error
		func() {
			defer func() {
				if r := recover(); r != nil {
					err = fmt.Errorf("panic: %v", r)
				}
			}()
			switch m := dl[1].(type) {
			case string:
				if m == "api" {
					err = scAPILoad(root, items)
					break
				}
				if m == "syntax" {
					text += "type {\n"
				}
				err = root.ParseString(text)
			default:
				k := sx.Int(sx.List(m)[1])
				if sx.Head(m) == "files" {
					err = root.ParseFS(scFiles(items, k), "*.graphql")
					break
				}
				if len(text) > 0 {
					k = k % len(text)
				}
				err = root.ParseReader(&faultReader{s: text, at: k})
			}
		}()
		after := scSnapshot(root)
		same := []sx.S{"same"}
		for i := range before {
			same = append(same, sx.A(before[i] == after[i]))
		}
		if err == nil {
			scBind(root)
		}
		if err == nil {
			// the order in which the root lists its types and directives against that of a fresh root
			// given everything accepted so far as one document in the reverse order
			accepted = append(accepted, items...)
			same = append(same, sx.A(scSameListing(root, accepted)))
		}
		res := "accepted"
		var cites sx.S = sx.L("cites")
		var msg sx.S = sx.Hex("")
		if err != nil {
			res = "rejected"
			if strings.HasPrefix(err.Error(), "panic: ") {
				res = "panicked"
			}
			cites = scCites(err.Error(), text)
			msg = sx.Hex(err.Error())
		}
		rec := sx.L("r", res, cites, msg, same, scItemsSx("view", scWalk(root)), scOps(root))
		if err == nil {
			rec = append(rec, scListed(root))
		}
		out = append(out, rec)
	}
	return out
}

// scFiles writes the definitions of one load into 2..4 files (ParseFS reads them in the order of a Go map:
// any order). Some files end in a comment, some of those without a final line break.
func scFiles(items []scItem, seed int) fstest.MapFS {
	r := rand.New(rand.NewSource(int64(seed)))
	k := 2 + r.Intn(3)
	parts := make([][]scItem, k)
	for _, it := range items {
		j := r.Intn(k)
		parts[j] = append(parts[j], it)
	}
	fsys := fstest.MapFS{}
	for j, p := range parts {
		text := scDocText(p)
		switch r.Intn(4) {
		case 0:
			text = strings.TrimRight(text, "\n") + " # the end of file " + strconv.Itoa(j)
		case 1:
			text = strings.TrimRight(text, "\n")
		case 2:
			text += "# the end of file " + strconv.Itoa(j) + "\n"
		}
		fsys["f"+strconv.Itoa(j)+".graphql"] = &fstest.MapFile{Data: []byte(text)}
	}
	return fsys
}

// scListed: the types and directives in the order the root lists them, as (kind, bytes of the name)
func scListed(root *ggql.Root) sx.S {
	entry := func(t ggql.Type) sx.S {
		k := -1
		switch t.(type) {
		case *ggql.Scalar:
			k = 0
		case *ggql.Object:
			k = 1
		case *ggql.Interface:
			k = 2
		case *ggql.Union:
			k = 3
		case *ggql.Enum:
			k = 4
		case *ggql.Input:
			k = 5
		case *ggql.Directive:
			k = 6
		case *ggql.Schema:
			k = 7
		}
		if k < 0 {
			return nil
		}
		bs := []sx.S{}
		for _, c := range []byte(t.Name()) {
			bs = append(bs, sx.A(int(c)))
		}
		return sx.L(sx.A(k), bs)
	}
	ts, ds := []sx.S{"types"}, []sx.S{"dirs"}
	for _, t := range root.Types() {
		if e := entry(t); e != nil {
			ts = append(ts, e)
		}
	}
	for _, t := range root.Directives() {
		if e := entry(t); e != nil {
			ds = append(ds, e)
		}
	}
	return sx.L("listed", ts, ds)
}

func scListing(root *ggql.Root) string {
	var b strings.Builder
	for _, t := range root.Types() {
		b.WriteString(t.Name() + " ")
	}
	b.WriteString("| ")
	for _, t := range root.Directives() {
		b.WriteString(t.Name() + " ")
	}
	res := root.ResolveString("{__schema{types{name} directives{name}}}", "", nil)
	return b.String() + "| " + scJSON(res)
}

func scSameListing(root *ggql.Root, accepted []scItem) (same bool) {
	defer func() {
		if r := recover(); r != nil {
			same = true
		}
	}()
	rev := make([]scItem, 0, len(accepted))
	for i := len(accepted) - 1; i >= 0; i-- {
		rev = append(rev, accepted[i])
	}
	fresh := ggql.NewRoot(scProbe{})
	if err := fresh.ParseString(scDocText(rev)); err != nil {
		return true // not loadable that way: nothing to compare with
	}
	return scListing(root) == scListing(fresh)
}

func scValid(input sx.S) bool {
	l := sx.List(input)
	if l[0].(string) != "docs" && l[0].(string) != "wfdocs" {
		return false
	}
	for _, d := range l[1:] {
		dl := sx.List(d)
		if dl[0].(string) != "doc" || len(dl) < 2 {
			return false
		}
		switch m := dl[1].(type) {
		case string:
			if m != "ok" && m != "syntax" && m != "api" {
				return false
			}
			if m == "api" {
				for _, e := range dl[2:] {
					if !scAPIExpressible(scItemFromSx(e)) {
						return false
					}
				}
			}
		default:
			ml := sx.List(m)
			if len(ml) != 2 || (ml[0].(string) != "fault" && ml[0].(string) != "files") || sx.Int(ml[1]) < 0 || len(dl) < 3 {
				return false
			}
		}
		for i, e := range dl[2:] {
			it := scItemFromSx(e)
			if it.K == kUnion && len(it.Members) == 0 && i != len(dl[2:])-1 {
				return false
			}
			// what this file's printer cannot express is not a well-formed input
			if it.K == kDirective && (len(it.Locs) == 0 || it.Ext) {
				return false
			}
			if it.K == kSchema && it.N != 0 {
				return false
			}
			if it.Ext && it.Desc != "" {
				return false
			}
		}
	}
	return true
}
