package main

// C17: the introspection answer of a real root, abstracted to the tree Introspect.v produces.

import (
	"fmt"
	"math/rand"
	"sort"
	"strconv"
	"strings"

	"github.com/uhn/ggql/pkg/ggql"

	"verifharness/sx"
)

const inTypeRef = `{kind name ofType{kind name ofType{kind name ofType{kind name ofType{kind name ofType{kind name ofType{kind name ofType{kind name ofType{kind name}}}}}}}}}`
const inInputValue = `{name description type` + inTypeRef + ` defaultValue}`

func inTypeSel(incl string) string {
	return `{kind name description fields(includeDeprecated:` + incl + `){name description args` + inInputValue + ` type` + inTypeRef +
		` isDeprecated deprecationReason} interfaces{kind name} possibleTypes{kind name} enumValues(includeDeprecated:` + incl +
		`){name description isDeprecated deprecationReason} inputFields` + inInputValue + ` ofType{name}}`
}

func inQuery(incl string) string {
	return `{__schema{queryType{name} mutationType{name} subscriptionType{name} types` + inTypeSel(incl) +
		` directives{name description locations args` + inInputValue + `}}}`
}

var inKinds = []string{"SCALAR", "OBJECT", "INTERFACE", "UNION", "ENUM", "INPUT_OBJECT", "LIST", "NON_NULL"}

func inKind(v interface{}) sx.S {
	s, _ := v.(string)
	for i, k := range inKinds {
		if k == s {
			return sx.L("k", sx.A(i))
		}
	}
	return sx.L("k", "99")
}

func inStr(v interface{}) sx.S {
	if v == nil {
		return "null"
	}
	s, ok := v.(string)
	if !ok {
		return sx.L("notstring", sx.Hex(fmt.Sprint(v)))
	}
	return sx.L("d", sx.Hex(s))
}

func inName(ns int, v interface{}) sx.S {
	if v == nil {
		return "null"
	}
	s, _ := v.(string)
	id := 9999
	switch ns {
	case 0:
		id = scTypeID(s)
	case 1:
		id = scDirID(s)
	case 3:
		id = scFieldID(s)
	case 4:
		id = scArgID(s)
	case 5:
		id = scValID(s)
	}
	return sx.L("nm", sx.A(ns), sx.A(id))
}

func inMap(v interface{}) map[string]interface{} {
	m, _ := v.(map[string]interface{})
	return m
}

func inList(v interface{}, f func(interface{}) sx.S) sx.S {
	if v == nil {
		return "null"
	}
	l, ok := v.([]interface{})
	if !ok {
		return sx.L("notlist", sx.Hex(fmt.Sprint(v)))
	}
	out := []sx.S{"l"}
	for _, e := range l {
		out = append(out, f(e))
	}
	return out
}

// a type reference: named types by kind and name, wrappers by kind and ofType (the name a wrapper
// reports is not part of the comparison, see DESIGN.md C17)
func inTRef(v interface{}) sx.S {
	if v == nil {
		return "null"
	}
	m := inMap(v)
	k, _ := m["kind"].(string)
	if k == "LIST" || k == "NON_NULL" {
		return sx.L("o", inKind(m["kind"]), "null", inTRef(m["ofType"]))
	}
	return sx.L("o", inKind(m["kind"]), inName(0, m["name"]), inTRef(m["ofType"]))
}

// defaultValue comes back as the printed constant; read it with this file's own small reader
func inDefault(v interface{}) sx.S {
	if v == nil {
		return "null"
	}
	s, ok := v.(string)
	if !ok {
		return sx.L("notstring", sx.Hex(fmt.Sprint(v)))
	}
	p := &inValParser{s: s}
	val, ok := p.value()
	p.ws()
	if !ok || p.pos != len(p.s) {
		return sx.L("unreadable", sx.Hex(s))
	}
	return sx.L("val", scVSx(val))
}

type inValParser struct {
	s   string
	pos int
}

func (p *inValParser) ws() {
	for p.pos < len(p.s) && (p.s[p.pos] == ' ' || p.s[p.pos] == ',' || p.s[p.pos] == '\n') {
		p.pos++
	}
}

func (p *inValParser) value() (scV, bool) {
	p.ws()
	if p.pos >= len(p.s) {
		return scV{}, false
	}
	c := p.s[p.pos]
	switch {
	case c == '[':
		p.pos++
		out := scV{K: "l"}
		for {
			p.ws()
			if p.pos < len(p.s) && p.s[p.pos] == ']' {
				p.pos++
				return out, true
			}
			e, ok := p.value()
			if !ok {
				return scV{}, false
			}
			out.L = append(out.L, e)
		}
	case c == '{':
		p.pos++
		out := scV{K: "o"}
		for {
			p.ws()
			if p.pos < len(p.s) && p.s[p.pos] == '}' {
				p.pos++
				return out, true
			}
			st := p.pos
			for p.pos < len(p.s) && p.s[p.pos] != ':' && p.s[p.pos] != '}' {
				p.pos++
			}
			if p.pos >= len(p.s) || p.s[p.pos] != ':' {
				return scV{}, false
			}
			key := strings.TrimSpace(p.s[st:p.pos])
			p.pos++
			id, err := strconv.Atoi(strings.TrimLeft(key, "abcdefghijklmnopqrstuvwxyzABCDEFGHIJKLMNOPQRSTUVWXYZ_"))
			if err != nil {
				return scV{}, false
			}
			e, ok := p.value()
			if !ok {
				return scV{}, false
			}
			out.F = append(out.F, id)
			out.L = append(out.L, e)
		}
	case c == '"':
		end := strings.IndexByte(p.s[p.pos+1:], '"')
		if end < 0 {
			return scV{}, false
		}
		body := p.s[p.pos+1 : p.pos+1+end]
		if body == `\` { // the built-in reason: "\"No longer supported\""
			rest := p.s[p.pos:]
			const lit = `"\"No longer supported\""`
			if strings.HasPrefix(rest, lit) {
				p.pos += len(lit)
				return scV{K: "s", I: 0}, true
			}
			return scV{}, false
		}
		p.pos += end + 2
		v := scVOf(body)
		return v, v.K == "s" || v.K == "i"
	default:
		st := p.pos
		for p.pos < len(p.s) && !strings.ContainsRune(" ,]}\n", rune(p.s[p.pos])) {
			p.pos++
		}
		tok := p.s[st:p.pos]
		switch tok {
		case "null":
			return scV{K: "null"}, true
		case "true":
			return scV{K: "b", I: 1}, true
		case "false":
			return scV{K: "b", I: 0}, true
		}
		if n, err := strconv.ParseInt(tok, 10, 64); err == nil {
			return scV{K: "i", I: n}, true
		}
		if f, err := strconv.ParseFloat(tok, 64); err == nil && f == float64(int64(f)) {
			return scV{K: "i", I: int64(f)}, true
		}
		if id := scValID(tok); id != 9999 {
			return scV{K: "y", I: int64(id)}, true
		}
		if v := scVOf(tok); v.K == "s" && v.I < 9000 { // a string default is answered raw (pinned by TestResolveInterfaceInput)
			return v, true
		}
		return scV{}, false
	}
}

func inInputVal(ns int) func(interface{}) sx.S {
	return func(v interface{}) sx.S {
		m := inMap(v)
		return sx.L("o", inName(ns, m["name"]), inStr(m["description"]), inTRef(m["type"]), inDefault(m["defaultValue"]))
	}
}

func inBool(v interface{}) sx.S {
	b, ok := v.(bool)
	if !ok {
		return sx.L("notbool", sx.Hex(fmt.Sprint(v)))
	}
	return sx.L("b", sx.A(b))
}

func inReason(v interface{}) sx.S {
	if v == nil {
		return "null"
	}
	s, ok := v.(string)
	if !ok {
		return sx.L("notstring", sx.Hex(fmt.Sprint(v)))
	}
	return sx.L("val", scVSx(scVOf(s)))
}

func inNamed(v interface{}) sx.S {
	m := inMap(v)
	return inName(0, m["name"])
}

func inSortedNamed(v interface{}) sx.S {
	return inSorted(inList(v, inNamed))
}

// members written in a definition and in its extend blocks come in an order that depends on the
// arrangement; they are compared as sets
func inSorted(out sx.S) sx.S {
	if l, ok := out.([]sx.S); ok {
		sort.Slice(l[1:], func(i, j int) bool { return sx.String(l[1+i]) < sx.String(l[1+j]) })
	}
	return out
}

func inType(v interface{}) sx.S {
	if v == nil {
		return "null"
	}
	m := inMap(v)
	k, _ := m["kind"].(string)
	ifNS := 3
	fields := inList(m["fields"], func(f interface{}) sx.S {
		fm := inMap(f)
		return sx.L("o", inName(3, fm["name"]), inStr(fm["description"]), inList(fm["args"], inInputVal(4)), inTRef(fm["type"]),
			inBool(fm["isDeprecated"]), inReason(fm["deprecationReason"]))
	})
	_ = k
	possible := inSortedNamed(m["possibleTypes"]) // implementers and members are sets
	return sx.L("o", inKind(m["kind"]), inName(0, m["name"]), inStr(m["description"]), inSorted(fields),
		inSortedNamed(m["interfaces"]), possible,
		inSorted(inList(m["enumValues"], func(e interface{}) sx.S {
			em := inMap(e)
			return sx.L("o", inName(5, em["name"]), inStr(em["description"]), inBool(em["isDeprecated"]), inReason(em["deprecationReason"]))
		})),
		inSorted(inList(m["inputFields"], inInputVal(ifNS))), inTRef(m["ofType"]))
}

func inUserType(name interface{}) bool {
	s, _ := name.(string)
	id := scTypeID(s)
	return id != 9999 && id >= len(scCoreTypes)
}

func inSchema(data interface{}) sx.S {
	sm := inMap(inMap(data)["__schema"])
	if sm == nil {
		return sx.L("noschema")
	}
	op := func(k string) sx.S {
		if sm[k] == nil {
			return "null"
		}
		return inNamed(sm[k])
	}
	types := []sx.S{"l"}
	if l, ok := sm["types"].([]interface{}); ok {
		var ts []sx.S
		for _, t := range l {
			if inUserType(inMap(t)["name"]) {
				ts = append(ts, inType(t))
			}
		}
		sort.Slice(ts, func(i, j int) bool { return sx.String(ts[i]) < sx.String(ts[j]) })
		types = append(types, ts...)
	}
	dirs := []sx.S{"l"}
	if l, ok := sm["directives"].([]interface{}); ok {
		var ds []sx.S
		for _, d := range l {
			dm := inMap(d)
			if n, _ := dm["name"].(string); scDirID(n) < len(scCoreDirs) || scDirID(n) == 9999 {
				continue
			}
			ds = append(ds, sx.L("o", inName(1, dm["name"]), inStr(dm["description"]),
				inList(dm["locations"], func(l interface{}) sx.S { s, _ := l.(string); return sx.L("loc", sx.A(scLocID(s))) }),
				inList(dm["args"], inInputVal(4))))
		}
		sort.Slice(ds, func(i, j int) bool { return sx.String(ds[i]) < sx.String(ds[j]) })
		dirs = append(dirs, ds...)
	}
	return sx.L("o", op("queryType"), op("mutationType"), op("subscriptionType"), types, dirs)
}

// application data under the three strategies
type inReflectRoot struct {
	Query        *inReflectOp
	Mutation     *inReflectOp
	Subscription *inReflectOp
}
type inReflectOp struct{}

type inAny struct{}

func (inAny) Resolve(obj interface{}, f *ggql.Field, _ map[string]interface{}) (interface{}, error) {
	switch f.Name {
	case "query", "mutation", "subscription":
		return &inReflectOp{}, nil
	}
	return nil, nil
}
func (inAny) Len(list interface{}) int                         { return 0 }
func (inAny) Nth(list interface{}, i int) (interface{}, error) { return nil, nil }

// input: (intro (strategy n) (incl b) (lookups name...) (docs ...))
// observed: (answer (schema TREE) (errors n) (lookups TREE...))
func inExec(input sx.S) sx.S {
	l := sx.List(input)
	strategy := sx.Int(sx.List(l[1])[1])
	incl := "false"
	if sx.Int(sx.List(l[2])[1]) != 0 {
		incl = "true"
	}
	var root *ggql.Root
	switch strategy {
	case 0:
		root = ggql.NewRoot(scProbe{})
	case 1:
		root = ggql.NewRoot(&inReflectRoot{Query: &inReflectOp{}, Mutation: &inReflectOp{}, Subscription: &inReflectOp{}})
	default:
		root = ggql.NewRoot(&inReflectRoot{Query: &inReflectOp{}, Mutation: &inReflectOp{}, Subscription: &inReflectOp{}})
		root.AnyResolver = inAny{}
	}
	for _, d := range sx.List(l[4])[1:] {
		dl := sx.List(d)
		var items []scItem
		for _, e := range dl[2:] {
			items = append(items, scItemFromSx(e))
		}
		if err := root.ParseString(scDocText(items)); err != nil {
			return sx.L("load-failed", sx.Hex(err.Error()))
		}
		// the root is also asked between loads: an answer must not outlive the schema it described
		func() {
			defer func() { _ = recover() }()
			_ = root.ResolveString(inQuery(incl), "", nil)
		}()
	}
	run := func(q string) (res map[string]interface{}, pan string) {
		defer func() {
			if r := recover(); r != nil {
				pan = fmt.Sprint(r)
			}
		}()
		return root.ResolveString(q, "", nil), ""
	}
	res, pan := run(inQuery(incl))
	if pan != "" {
		return sx.L("panic", sx.Hex(pan))
	}
	nerr := 0
	if es, ok := res["errors"].([]interface{}); ok {
		nerr = len(es)
	} else if res["errors"] != nil {
		nerr = 1
	}
	errText := ""
	if nerr > 0 {
		errText = fmt.Sprint(res["errors"])
		if len(errText) > 300 {
			errText = errText[:300]
		}
	}
	lookups := []sx.S{"lookups"}
	for _, n := range sx.List(l[3])[1:] {
		name := scTypeName(sx.Int(n))
		if id := sx.Int(n); id >= 5000 { // the name of a directive: not a type
			name = scDirName(id - 5000)
		}
		r2, pan := run(`{__type(name:"` + name + `")` + inTypeSel(incl) + `}`)
		if pan != "" {
			lookups = append(lookups, sx.L("panic", sx.Hex(pan)))
			continue
		}
		lookups = append(lookups, inType(inMap(r2["data"])["__type"]))
	}
	return sx.L("answer", inSchema(res["data"]), sx.L("errors", sx.A(nerr), sx.Hex(errText)), lookups)
}

func inValid(input sx.S) bool {
	l := sx.List(input)
	if len(l) != 5 || l[0].(string) != "intro" {
		return false
	}
	s := sx.Int(sx.List(l[1])[1])
	if s < 0 || s > 2 {
		return false
	}
	return scValid(l[4])
}

func c17Gen(r *rand.Rand, tier string) []Case {
	n := 50
	if tier == "thorough" {
		n = 400
	}
	var out []Case
	lateRoots := 0
	for i := 0; i < n; i++ {
		w := scWellFormed(r, 1+r.Intn(3))
		// deprecations on fields and enum values so that includeDeprecated matters
		for j := range w {
			for k := range w[j].Fields {
				if (w[j].K == kObject || w[j].K == kInterface) && len(w[j].Ifaces) == 0 && r.Intn(4) == 0 && len(w[j].Fields[k].Dirs) == 0 {
					du := scDU{N: 2}
					if r.Intn(2) == 0 {
						du.Args = []scAV{{N: 1, V: scV{K: "s", I: int64(1 + r.Intn(40))}}}
					}
					w[j].Fields[k].Dirs = append(w[j].Fields[k].Dirs, du)
				}
			}
		}
		hasQuery := false
		for _, it := range w {
			if it.K == kObject && it.N == 10 {
				hasQuery = true
			}
			if it.K == kSchema { // a declared schema needs a query operation to be introspected at all
				hasQuery = false
				for _, f := range it.Fields {
					if f.N == 1 {
						hasQuery = true
					}
				}
				break
			}
		}
		if !hasQuery {
			i--
			continue
		}
		// enum values carrying @deprecated followed by a user directive
		var evDirs []scItem
		for _, it := range w {
			if it.K == kDirective {
				ok := false
				for _, l := range it.Locs {
					if l == 15 {
						ok = true
					}
				}
				for _, a := range it.Inputs {
					if a.T.K == 2 && a.Def == nil {
						ok = false
					}
				}
				if ok {
					evDirs = append(evDirs, it)
				}
			}
		}
		for j := range w {
			if w[j].K != kEnum {
				continue
			}
			for k := range w[j].Vals {
				if len(w[j].Vals[k].Dirs) == 0 && r.Intn(2) == 0 {
					w[j].Vals[k].Dirs = []scDU{{N: 2}}
					if len(evDirs) > 0 {
						w[j].Vals[k].Dirs = append(w[j].Vals[k].Dirs, scDU{N: evDirs[r.Intn(len(evDirs))].N})
					}
				}
			}
		}
		var docs [][]scItem
		tags := []string{"nontrivial"}
		variant := r.Intn(5)
		if variant == 4 {
			// an object gains an interface through a later load that holds nothing but that extension
			// (introspection runs between the loads: what it answered before must not stick)
			variant = 3
			for j := range w {
				if w[j].K == kObject && !w[j].Ext && len(w[j].Ifaces) > 0 {
					base := scCopy(w)
					ci := r.Intn(len(w[j].Ifaces))
					moved := base[j].Ifaces[ci]
					base[j].Ifaces = append(append([]int{}, base[j].Ifaces[:ci]...), base[j].Ifaces[ci+1:]...)
					docs = [][]scItem{base, {{Ext: true, K: kObject, N: w[j].N, Ifaces: []int{moved}}}}
					tags = append(tags, "partitioned", "interface-gained-in-a-later-load")
					variant = -1
					break
				}
			}
		}
		if variant >= 0 && (lateRoots == 0 || r.Intn(2) == 0) {
			// a Mutation / Subscription type arrives in a later load together with an extension of an
			// earlier type (no schema block: the operation roots follow the type names)
			hasSchema := false
			for _, it := range w {
				if it.K == kSchema {
					hasSchema = true
				}
			}
			for j := range w {
				if hasSchema || w[j].K != kObject || w[j].Ext || (w[j].N != 11 && w[j].N != 12) {
					continue
				}
				var base []scItem
				for k := range w {
					if k != j && !(w[k].Ext && w[k].N == w[j].N) {
						base = append(base, w[k])
					}
				}
				var late []scItem
				for k := range w {
					if k == j || (w[k].Ext && w[k].N == w[j].N) {
						late = append(late, w[k])
					}
				}
				referred := false
				for k := range base {
					if scRefers(base[k], w[j].N) {
						referred = true
					}
				}
				for k := range base {
					if !referred && base[k].K == kObject && !base[k].Ext && base[k].N == 10 {
						late = append(late, scItem{Ext: true, K: kObject, N: 10, Fields: []scField{{N: 689, T: scT{N: 0}}}})
						docs = [][]scItem{base, late}
						w = append(scCopy(w), late[len(late)-1])
						tags = append(tags, "partitioned", "operation-root-in-a-later-load-with-an-extension")
						lateRoots++
						variant = -1
						break
					}
				}
				break
			}
		}
		switch variant {
		case -1:
		case 0:
			docs = [][]scItem{w}
		case 1:
			docs = [][]scItem{scShuffle(r, scSplit(r, w))}
			tags = append(tags, "extend-split")
		case 2:
			docs = scPartition(r, w)
			tags = append(tags, "partitioned")
		default: // the definitions first, every extension in a second load that adds no type
			sp := scSplit(r, w)
			var bs, xs []scItem
			for _, it := range sp {
				if it.Ext {
					xs = append(xs, it)
				} else {
					bs = append(bs, it)
				}
			}
			docs = [][]scItem{bs}
			if len(xs) > 0 {
				docs = append(docs, xs)
			}
			tags = append(tags, "partitioned", "extend-split", "extensions-last")
		}
		var ds []sx.S
		for _, d := range docs {
			ds = append(ds, scDocSx("ok", d))
		}
		var names []sx.S
		for _, it := range w {
			if it.K != kDirective && it.K != kSchema && r.Intn(3) == 0 {
				names = append(names, sx.A(it.N))
			}
		}
		names = append(names, sx.A(950+r.Intn(20))) // an unknown name
		names = append(names, sx.A(5000+r.Intn(3))) // skip / include / deprecated: directives, not types
		for _, it := range w {
			if it.K == kDirective && r.Intn(2) == 0 {
				names = append(names, sx.A(5000+it.N))
			}
		}
		for strategy := 0; strategy < 3; strategy++ {
			for incl := 0; incl < 2; incl++ {
				if tier != "thorough" && r.Intn(2) == 0 {
					continue
				}
				input := sx.L("intro", sx.L("strategy", sx.A(strategy)), sx.L("incl", sx.A(incl)),
					append([]sx.S{"lookups"}, names...), append([]sx.S{"docs"}, ds...))
				out = append(out, Case{ID: fmt.Sprintf("i%d-s%d-d%d", i, strategy, incl), Input: input,
					Tags:  append(append([]string{}, tags...), fmt.Sprintf("strategy-%d", strategy), fmt.Sprintf("includeDeprecated-%d", incl)),
					Human: scHuman(docs)})
			}
		}
	}
	// defaults that are lists of input objects leaving out defaulted fields, on a directive argument, a
	// field argument and an input field: introspection reports the default as the schema wrote it
	for i := 0; i < 3; i++ {
		obj := func(n int64) scV { return scV{K: "o", F: []int{10}, L: []scV{{K: "i", I: n}}} }
		lst := &scV{K: "l", L: []scV{obj(int64(1 + i)), obj(int64(3 + i))}}
		lt := scT{K: 1, Of: &scT{N: 30}}
		in := scItem{K: kInput, N: 30, Inputs: []scArg{{N: 10, T: scT{N: 0}}, {N: 11, T: scT{N: 0}, Def: &scV{K: "i", I: 100}}}}
		in2 := scItem{K: kInput, N: 31, Inputs: []scArg{{N: 10, T: lt, Def: lst}}}
		d := scItem{K: kDirective, N: 10, Inputs: []scArg{{N: 10, T: lt, Def: lst}}, Locs: []int{9}}
		q := scItem{K: kObject, N: 10, Fields: []scField{{N: 10, T: scT{N: 0}, Args: []scArg{{N: 12, T: lt, Def: lst}, {N: 13, T: scT{N: 31}}}}}, Dirs: []scDU{{N: 10}}}
		w := []scItem{in, in2, d, q}
		docs := [][]scItem{w}
		if i == 1 {
			docs = [][]scItem{{q, d, in2, in}}
		} else if i == 2 {
			docs = [][]scItem{{in, in2, d}, {q}}
		}
		var ds []sx.S
		for _, dd := range docs {
			ds = append(ds, scDocSx("ok", dd))
		}
		names := []sx.S{sx.A(30), sx.A(31), sx.A(10), sx.A(5010)}
		for strategy := 0; strategy < 3; strategy++ {
			input := sx.L("intro", sx.L("strategy", sx.A(strategy)), sx.L("incl", sx.A(i%2)),
				append([]sx.S{"lookups"}, names...), append([]sx.S{"docs"}, ds...))
			out = append(out, Case{ID: fmt.Sprintf("ilist%d-s%d", i, strategy), Input: input,
				Tags: []string{"nontrivial", "list-of-objects-default", fmt.Sprintf("strategy-%d", strategy)}, Human: scHuman(docs)})
		}
	}
	return out
}

func init() {
	props["C17"] = &Prop{Gen: c17Gen, Exec: inExec, Valid: inValid}
}

// scRefers: the item mentions type n (as a field, argument or input-field type, a union member)
func scRefers(it scItem, n int) bool {
	base := func(t scT) int {
		for t.Of != nil {
			t = *t.Of
		}
		return t.N
	}
	for _, m := range it.Members {
		if m == n {
			return true
		}
	}
	for _, f := range it.Fields {
		if base(f.T) == n {
			return true
		}
		for _, a := range f.Args {
			if base(a.T) == n {
				return true
			}
		}
	}
	for _, a := range it.Inputs {
		if base(a.T) == n {
			return true
		}
	}
	return false
}
