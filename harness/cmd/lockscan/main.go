// Command lockscan checks a lock discipline syntactically: inside every function of a package,
// each use of a guarded field must lie textually between <x>.<mutex>.Lock() and the matching Unlock()
// (or after a deferred Unlock).  Usage: lockscan -dir /repo/pkg/ggql -mutex subLock -field subscriptions
// Prints one line per unguarded access and a summary line "lockscan: N accesses, M unguarded".
package main

import (
	"flag"
	"fmt"
	"go/ast"
	"go/parser"
	"go/token"
	"io/fs"
	"sort"
	"strings"
)

type ev struct {
	pos  token.Pos
	kind string // lock, unlock, access
}

func main() {
	dir := flag.String("dir", "/repo/pkg/ggql", "package directory")
	mutex := flag.String("mutex", "subLock", "mutex field name")
	field := flag.String("field", "subscriptions", "guarded field name")
	flag.Parse()
	fset := token.NewFileSet()
	pkgs, err := parser.ParseDir(fset, *dir, func(fi fs.FileInfo) bool {
		return !strings.HasSuffix(fi.Name(), "_test.go")
	}, 0)
	if err != nil {
		fmt.Println("lockscan: parse error:", err)
		return
	}
	total, bad := 0, 0
	for _, pkg := range pkgs {
		for _, file := range pkg.Files {
			for _, decl := range file.Decls {
				fd, ok := decl.(*ast.FuncDecl)
				if !ok || fd.Body == nil {
					continue
				}
				var evs []ev
				deferred := false
				ast.Inspect(fd.Body, func(n ast.Node) bool {
					switch t := n.(type) {
					case *ast.DeferStmt:
						if isCall(t.Call, *mutex, "Unlock") {
							deferred = true
							return false
						}
					case *ast.CallExpr:
						if isCall(t, *mutex, "Lock") {
							evs = append(evs, ev{t.Pos(), "lock"})
							return false
						}
						if isCall(t, *mutex, "Unlock") {
							evs = append(evs, ev{t.Pos(), "unlock"})
							return false
						}
					case *ast.SelectorExpr:
						if t.Sel.Name == *field {
							evs = append(evs, ev{t.Pos(), "access"})
						}
					}
					return true
				})
				sort.Slice(evs, func(i, j int) bool { return evs[i].pos < evs[j].pos })
				locked := false
				for _, e := range evs {
					switch e.kind {
					case "lock":
						locked = true
					case "unlock":
						locked = false
					case "access":
						total++
						if !locked {
							bad++
							fmt.Printf("UNGUARDED %s in %s at %s\n", *field, fd.Name.Name, fset.Position(e.pos))
						}
					}
				}
				_ = deferred
			}
		}
	}
	fmt.Printf("lockscan: %d accesses, %d unguarded\n", total, bad)
}

func isCall(c *ast.CallExpr, mutex, method string) bool {
	sel, ok := c.Fun.(*ast.SelectorExpr)
	if !ok || sel.Sel.Name != method {
		return false
	}
	inner, ok := sel.X.(*ast.SelectorExpr)
	return ok && inner.Sel.Name == mutex
}
